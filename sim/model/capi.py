"""ctypes binding of the C query interface, generated from
interrogate_interface.h at run time, plus the table that says what each
function must return for a record of the reference model."""
import ctypes
import os
import re

INT_TYPES = {"int", "TypeIndex", "FunctionIndex", "FunctionWrapperIndex", "ManifestIndex", "ElementIndex", "MakeSeqIndex", "AtomicToken"}


def parse_header(path):
    """Returns [(name, ret, [arg types])] for every EXPCL_INTERROGATEDB function."""
    txt = open(path).read()
    txt = re.sub(r"/\*.*?\*/", " ", txt, flags=re.S)
    txt = re.sub(r"//[^\n]*", " ", txt)
    out = []
    for m in re.finditer(r"EXPCL_INTERROGATEDB\s+([^;(]+?)\s*\b(interrogate_\w+)\s*\(([^)]*)\)\s*;", txt):
        ret = " ".join(m.group(1).split())
        args = []
        a = m.group(3).strip()
        if a and a != "void":
            for p in a.split(","):
                p = " ".join(p.split())
                p = re.sub(r"\s*\w+$", "", p) if not p.endswith("*") else p   # drop the parameter name
                args.append(p.strip())
        out.append((m.group(2), ret, args))
    return out


def _ctype(t):
    t = t.replace(" *", "*").strip()
    if t in INT_TYPES:
        return ctypes.c_int
    if t == "bool":
        return ctypes.c_bool
    if t in ("const char*", "char*"):
        return ctypes.c_char_p
    if t == "void*":
        return ctypes.c_void_p
    if t == "void":
        return None
    if t == "InterrogateModuleDef*":
        return ctypes.c_void_p
    raise ValueError("unknown C type %r" % t)


class UniqueNameDef(ctypes.Structure):
    _fields_ = [("name", ctypes.c_char_p), ("index_offset", ctypes.c_int)]


class ModuleDef(ctypes.Structure):
    _fields_ = [("file_identifier", ctypes.c_int),
                ("library_name", ctypes.c_char_p), ("library_hash_name", ctypes.c_char_p),
                ("module_name", ctypes.c_char_p), ("database_filename", ctypes.c_char_p),
                ("unique_names", ctypes.POINTER(UniqueNameDef)), ("num_unique_names", ctypes.c_int),
                ("fptrs", ctypes.POINTER(ctypes.c_void_p)), ("num_fptrs", ctypes.c_int),
                ("first_index", ctypes.c_int), ("next_index", ctypes.c_int)]


class Api:
    def __init__(self, libpath, header_paths):
        self.lib = ctypes.CDLL(libpath, mode=ctypes.RTLD_GLOBAL)
        self.sigs = {}
        for hp in header_paths:
            for name, ret, args in parse_header(hp):
                try:
                    fn = getattr(self.lib, name)
                    fn.restype = _ctype(ret)
                    fn.argtypes = [_ctype(a) for a in args]
                except (AttributeError, ValueError):
                    continue
                self.sigs[name] = (ret.replace(" *", "*"), [a.replace(" *", "*") for a in args])

    def __getattr__(self, name):
        return getattr(self.lib, name)


# ------------------------------------------------------------------ expectations
# Each entry: kind, shape, expected(record) ; shape "i" = f(index), "in" = f(index, n)
# For "in" entries `count` names the field whose length bounds n.

def _flag(bit):
    return lambda r: bool(r["flags"] & bit)


def _nth(field, sub=None, default=0):
    def f(r, n):
        lst = r[field]
        if 0 <= n < len(lst):
            return lst[n] if sub is None else lst[n][sub]
        return default
    return f


def _nth_flag(field, bit):
    def f(r, n):
        lst = r[field]
        if 0 <= n < len(lst):
            return bool(lst[n]["flags"] & bit)
        return False
    return f


T = {}


def _reg(name, kind, shape, fn):
    T[name] = (kind, shape, fn)


# manifests
_reg("interrogate_manifest_name", "manifests", "i", lambda r: r["name"])
_reg("interrogate_manifest_definition", "manifests", "i", lambda r: r["definition"])
_reg("interrogate_manifest_has_type", "manifests", "i", _flag(0x1))
_reg("interrogate_manifest_get_type", "manifests", "i", lambda r: r["type"])
_reg("interrogate_manifest_has_getter", "manifests", "i", _flag(0x2))
_reg("interrogate_manifest_getter", "manifests", "i", lambda r: r["getter"])
_reg("interrogate_manifest_has_int_value", "manifests", "i", _flag(0x4))
_reg("interrogate_manifest_get_int_value", "manifests", "i", lambda r: r["int_value"])
# elements
_reg("interrogate_element_name", "elements", "i", lambda r: r["name"])
_reg("interrogate_element_scoped_name", "elements", "i", lambda r: r["scoped_name"])
_reg("interrogate_element_has_comment", "elements", "i", lambda r: bool(r["comment"]))
_reg("interrogate_element_comment", "elements", "i", lambda r: r["comment"])
_reg("interrogate_element_type", "elements", "i", lambda r: r["type"])
for _n, _bit, _f in (("getter", 0x2, "getter"), ("setter", 0x4, "setter")):
    _reg("interrogate_element_has_" + _n, "elements", "i", _flag(_bit))
    _reg("interrogate_element_" + _n, "elements", "i", (lambda f: (lambda r: r[f]))(_f))
for _n, _bit in (("has_function", 0x8), ("clear_function", 0x10), ("del_function", 0x20), ("insert_function", 0x100), ("getkey_function", 0x200)):
    _reg("interrogate_element_has_" + _n, "elements", "i", _flag(_bit))
    _reg("interrogate_element_" + _n, "elements", "i", (lambda f: (lambda r: r[f]))(_n))
_reg("interrogate_element_length_function", "elements", "i", lambda r: r["length_function"])
_reg("interrogate_element_is_sequence", "elements", "i", _flag(0x40))
_reg("interrogate_element_is_mapping", "elements", "i", _flag(0x80))
# functions
_reg("interrogate_function_name", "functions", "i", lambda r: r["name"])
_reg("interrogate_function_scoped_name", "functions", "i", lambda r: r["scoped_name"])
_reg("interrogate_function_has_comment", "functions", "i", lambda r: bool(r["comment"]))
_reg("interrogate_function_comment", "functions", "i", lambda r: r["comment"])
_reg("interrogate_function_prototype", "functions", "i", lambda r: r["prototype"])
_reg("interrogate_function_is_method", "functions", "i", _flag(0x4))
_reg("interrogate_function_class", "functions", "i", lambda r: r["class"])
_reg("interrogate_function_is_unary_op", "functions", "i", _flag(0x40))
_reg("interrogate_function_is_operator_typecast", "functions", "i", _flag(0x80))
_reg("interrogate_function_is_constructor", "functions", "i", _flag(0x100))
_reg("interrogate_function_is_destructor", "functions", "i", _flag(0x200))
_reg("interrogate_function_is_virtual", "functions", "i", _flag(0x2))
_reg("interrogate_function_number_of_c_wrappers", "functions", "i", lambda r: len(r["c_wrappers"]))
_reg("interrogate_function_c_wrapper", "functions", "in", _nth("c_wrappers"))
_reg("interrogate_function_number_of_python_wrappers", "functions", "i", lambda r: len(r["python_wrappers"]))
_reg("interrogate_function_python_wrapper", "functions", "in", _nth("python_wrappers"))
# wrappers
_reg("interrogate_wrapper_name", "wrappers", "i", lambda r: r["name"])
_reg("interrogate_wrapper_function", "wrappers", "i", lambda r: r["function"])
_reg("interrogate_wrapper_is_callable_by_name", "wrappers", "i", _flag(0x4))
_reg("interrogate_wrapper_is_copy_constructor", "wrappers", "i", _flag(0x8))
_reg("interrogate_wrapper_is_coerce_constructor", "wrappers", "i", _flag(0x10))
_reg("interrogate_wrapper_is_extension", "wrappers", "i", _flag(0x20))
_reg("interrogate_wrapper_is_deprecated", "wrappers", "i", _flag(0x40))
_reg("interrogate_wrapper_has_comment", "wrappers", "i", lambda r: bool(r["comment"]))
_reg("interrogate_wrapper_comment", "wrappers", "i", lambda r: r["comment"])
_reg("interrogate_wrapper_has_return_value", "wrappers", "i", _flag(0x2))
_reg("interrogate_wrapper_return_type", "wrappers", "i", lambda r: r["return_type"])
_reg("interrogate_wrapper_caller_manages_return_value", "wrappers", "i", _flag(0x1))
_reg("interrogate_wrapper_return_value_destructor", "wrappers", "i", lambda r: r["return_value_destructor"])
_reg("interrogate_wrapper_number_of_parameters", "wrappers", "i", lambda r: len(r["parameters"]))
_reg("interrogate_wrapper_parameter_type", "wrappers", "in", _nth("parameters", "type"))
_reg("interrogate_wrapper_parameter_has_name", "wrappers", "in", _nth_flag("parameters", 0x1))
_reg("interrogate_wrapper_parameter_name", "wrappers", "in", _nth("parameters", "name", b""))
_reg("interrogate_wrapper_parameter_is_this", "wrappers", "in", _nth_flag("parameters", 0x2))
_reg("interrogate_wrapper_parameter_is_optional", "wrappers", "in", _nth_flag("parameters", 0x4))
_reg("interrogate_wrapper_unique_name", "wrappers", "i", lambda r: r["unique_name"])
# make_seqs
_reg("interrogate_make_seq_seq_name", "make_seqs", "i", lambda r: r["name"])
_reg("interrogate_make_seq_scoped_name", "make_seqs", "i", lambda r: r["scoped_name"])
_reg("interrogate_make_seq_has_comment", "make_seqs", "i", lambda r: bool(r["comment"]))
_reg("interrogate_make_seq_comment", "make_seqs", "i", lambda r: r["comment"])
_reg("interrogate_make_seq_num_getter", "make_seqs", "i", lambda r: r["length_getter"])
_reg("interrogate_make_seq_element_getter", "make_seqs", "i", lambda r: r["element_getter"])
# types
_reg("interrogate_type_name", "types", "i", lambda r: r["name"])
_reg("interrogate_type_scoped_name", "types", "i", lambda r: r["scoped_name"])
_reg("interrogate_type_true_name", "types", "i", lambda r: r["true_name"])
_reg("interrogate_type_has_comment", "types", "i", lambda r: bool(r["comment"]))
_reg("interrogate_type_comment", "types", "i", lambda r: r["comment"])
_reg("interrogate_type_outer_class", "types", "i", lambda r: r["outer_class"])
_reg("interrogate_type_atomic_token", "types", "i", lambda r: r["atomic_token"])
_reg("interrogate_type_wrapped_type", "types", "i", lambda r: r["wrapped_type"])
_reg("interrogate_type_array_size", "types", "i", lambda r: r["array_size"])
for _n, _bit in (("is_global", 0x1), ("is_atomic", 0x2), ("is_unsigned", 0x4), ("is_signed", 0x8), ("is_long", 0x10), ("is_longlong", 0x20),
                 ("is_short", 0x40), ("is_wrapped", 0x80), ("is_pointer", 0x100), ("is_const", 0x200), ("is_struct", 0x400), ("is_class", 0x800),
                 ("is_union", 0x1000), ("is_fully_defined", 0x2000), ("destructor_is_inherited", 0x10000), ("is_nested", 0x40000),
                 ("is_enum", 0x80000), ("is_unpublished", 0x100000), ("is_typedef", 0x200000), ("is_array", 0x400000),
                 ("is_scoped_enum", 0x800000), ("is_final", 0x1000000), ("is_deprecated", 0x2000000)):
    _reg("interrogate_type_" + _n, "types", "i", _flag(_bit))
_reg("interrogate_type_number_of_enum_values", "types", "i", lambda r: len(r["enum_values"]))
_reg("interrogate_type_enum_value_name", "types", "in", _nth("enum_values", "name", b""))
_reg("interrogate_type_enum_value_scoped_name", "types", "in", _nth("enum_values", "scoped_name", b""))
_reg("interrogate_type_enum_value_comment", "types", "in", _nth("enum_values", "comment", b""))
_reg("interrogate_type_enum_value", "types", "in", _nth("enum_values", "value"))
_reg("interrogate_type_has_destructor", "types", "i", lambda r: r["destructor"] != 0)
_reg("interrogate_type_get_destructor", "types", "i", lambda r: r["destructor"])
for _n, _f, _g in (("constructors", "constructors", "constructor"), ("elements", "elements", "element"), ("methods", "methods", "method"),
                   ("make_seqs", "make_seqs", "make_seq"), ("casts", "casts", "cast"), ("nested_types", "nested_types", "nested_type")):
    _reg("interrogate_type_number_of_" + _n, "types", "i", (lambda f: (lambda r: len(r[f])))(_f))
    _reg("interrogate_type_get_" + _g, "types", "in", _nth(_f))
_reg("interrogate_type_number_of_derivations", "types", "i", lambda r: len(r["derivations"]))
_reg("interrogate_type_get_derivation", "types", "in", _nth("derivations", "base"))
_reg("interrogate_type_derivation_has_upcast", "types", "in", _nth_flag("derivations", 0x1))
_reg("interrogate_type_get_upcast", "types", "in", _nth("derivations", "upcast"))
_reg("interrogate_type_derivation_downcast_is_impossible", "types", "in", _nth_flag("derivations", 0x4))
_reg("interrogate_type_derivation_has_downcast", "types", "in", _nth_flag("derivations", 0x2))
_reg("interrogate_type_get_downcast", "types", "in", _nth("derivations", "downcast"))

# count functions for positional accessors (used to bound n in sweeps)
COUNT_FIELD = {
    "interrogate_function_c_wrapper": "c_wrappers", "interrogate_function_python_wrapper": "python_wrappers",
    "interrogate_type_get_constructor": "constructors", "interrogate_type_get_element": "elements", "interrogate_type_get_method": "methods",
    "interrogate_type_get_make_seq": "make_seqs", "interrogate_type_get_cast": "casts", "interrogate_type_get_nested_type": "nested_types",
    "interrogate_type_get_derivation": "derivations", "interrogate_type_derivation_has_upcast": "derivations", "interrogate_type_get_upcast": "derivations",
    "interrogate_type_derivation_downcast_is_impossible": "derivations", "interrogate_type_derivation_has_downcast": "derivations",
    "interrogate_type_get_downcast": "derivations", "interrogate_type_enum_value_name": "enum_values", "interrogate_type_enum_value_scoped_name": "enum_values",
    "interrogate_type_enum_value_comment": "enum_values", "interrogate_type_enum_value": "enum_values",
    "interrogate_wrapper_parameter_type": "parameters", "interrogate_wrapper_parameter_has_name": "parameters", "interrogate_wrapper_parameter_name": "parameters",
    "interrogate_wrapper_parameter_is_this": "parameters", "interrogate_wrapper_parameter_is_optional": "parameters",
}

# per-entity library/module accessors: {name: (kind, "library"|"module", "has"|"get")}
OWNER = {}
for _k, _p in (("functions", "function"), ("types", "type")):
    OWNER["interrogate_%s_has_module_name" % _p] = (_k, "module", "has")
    OWNER["interrogate_%s_module_name" % _p] = (_k, "module", "get")
    OWNER["interrogate_%s_has_library_name" % _p] = (_k, "library", "has")
    OWNER["interrogate_%s_library_name" % _p] = (_k, "library", "get")

# enumerations: count function -> (accessor, kind, which)
ENUMS = {
    "interrogate_number_of_manifests": ("interrogate_get_manifest", "manifests", "all"),
    "interrogate_number_of_globals": ("interrogate_get_global", "elements", "global"),
    "interrogate_number_of_global_functions": ("interrogate_get_global_function", "functions", "global"),
    "interrogate_number_of_functions": ("interrogate_get_function", "functions", "all"),
    "interrogate_number_of_global_types": ("interrogate_get_global_type", "types", "global"),
    "interrogate_number_of_types": ("interrogate_get_type", "types", "all"),
}

LOOKUPS = {
    "interrogate_get_manifest_by_name": ("manifests", "name"),
    "interrogate_get_element_by_name": ("elements", "name"),
    "interrogate_get_element_by_scoped_name": ("elements", "scoped_name"),
    "interrogate_get_type_by_name": ("types", "name"),
    "interrogate_get_type_by_scoped_name": ("types", "scoped_name"),
    "interrogate_get_type_by_true_name": ("types", "true_name"),
}

# functions handled specially by the simulation (not plain index sweeps)
SPECIAL = {"interrogate_add_search_directory", "interrogate_add_search_path", "interrogate_error_flag", "interrogate_request_database",
           "interrogate_request_module", "interrogate_get_wrapper_by_unique_name", "interrogate_wrapper_has_pointer", "interrogate_wrapper_pointer",
           "interrogate_make_seq_num_name", "interrogate_make_seq_element_name"}


def neutral_ok(ret_type, value, name=""):
    """Is `value` a defined neutral value for a function of this return type?"""
    if ret_type == "bool":
        return value is False
    if ret_type in ("const char*", "char*"):
        return value is None or value == b""
    if ret_type == "void*":
        return value is None or value == 0
    return value == 0

// Library A: base classes used by B and C.
#ifndef A_H
#define A_H

#define A_VERSION 3
#define A_NAME "liba \"quoted\""
#define A_SCALE 2.5

enum AColor {
  AC_red = 1,
  AC_green = 2,
  AC_blue = 4,
};

class ABase {
__published:
  ABase();
  explicit ABase(int value);
  virtual ~ABase();

  int get_value() const;
  void set_value(int value);
  __make_property(value, get_value, set_value);

  int get_num_items() const;
  int get_item(int n) const;
  __make_seq(get_items, get_num_items, get_item);

  static int count_instances();

  // Overloads the comparator cannot fully separate.
  void k(long v);
  void k(unsigned v);
  void k(short v);
  void k(bool v);
  void k(double v);
  void k(float v);

  enum Mode {
    M_off,
    M_on = 7,
  };
  Mode get_mode() const;

public:
  int _unpublished;
};

class AOther {
__published:
  AOther();
  ABase *make_base(int n = 3, const char *label = "x y");
  int operator [](int n) const;
};

struct APlain {
__published:
  int x;
  float y;
  ABase base;
};

typedef ABase ABaseAlias;

class AForward;

__published:
int a_global_function(int a, double b = 1.5);
extern int a_global_variable;
AForward *a_get_forward();

#endif

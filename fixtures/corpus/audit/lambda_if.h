#if []{}
int a;
#endif

namespace b { int x; }
int y = b::b;
namespace outer { namespace inner { int inner_var; } }
namespace alias = outer::inner;
int z = alias::inner;

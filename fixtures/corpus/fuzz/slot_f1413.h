#include "pre.h"
#include <string>
class ReferenceCount { PUBLISHED: void ref() const; bool unref() const; int get_ref_count() const; };
template<class T> class PointerTo { public: PointerTo(T *p = nullptr); T *p() const; };
template<class T> class ConstPointerTo { public: ConstPointerTo(const T *p = nullptr); const T *p() const; };
class TypedObject { PUBLISHED: int get_type() const; static int get_class_type(); };
class K0;
class K1;
class K2;
class K3;
class K4;
class K0 {
PUBLISHED:
  K0(const K0 &copy);
  double operator >>=(const K4 * value) const;
  std::string operator >>=(K4, K1 & x);
  static bool __nonzero__(K2 & y0, K4 *);
  void __nonzero__(K0 x, unsigned int a = 2, int index2 = 0) const;
  K0 & __nonzero__(ConstPointerTo<K2> b) const;
  PyObject * __sub__(K4 *);
  bool __sub__();
  std::string __sub__(ConstPointerTo<K0> y);
  double operator [](PyObject * b0);
  double operator []();
  double operator ^=(K1 * index, PointerTo<K3> index1, K0 a2) const;
  double __add__() const;
  K0 foo() const;
  static void foo(PointerTo<K2>);
  MAKE_PROPERTY2(p1, foo, __add__, __add__, foo);
  const char * _m0;
  float _m1;
};
class K1 : public TypedObject, public K0 {
PUBLISHED:
  K1(const K1 &copy);
  void __repr__(std::string);
  std::string __repr__();
  K1 & operator <=>(void * b0);
  const K1 * operator <=>(unsigned long long, double key) const;
  K1 * operator |=(const K1 *, wchar_t a);
  double operator /(unsigned long long) const;
  size_t operator /();
  const K1 * operator /() const;
  std::string _m5;
  int _m4;
};
class K2 : public ReferenceCount {
PUBLISHED:
  K2(K2 & y0);
  K2(unsigned int = 2, size_t a1 = 1);
  K2();
  K2 * operator <(PointerTo<K0> value) const;
  K2 & operator <(std::nullptr_t key, const K4 & index1) const;
  PointerTo<K2> operator <() const;
  std::string operator *(PyObject * value0) const;
  K2 __pos__(const K2 & y, PointerTo<K2> b1);
  K2 __pos__(unsigned long long b, char b1);
  size_t __pos__(double y, std::wstring key, PyObject * b) const;
  PyObject * __rand__(Py_buffer * key0, K2 * x, unsigned int) const;
  static const K2 * __rand__(size_t = 0);
  const K2 * operator ++(std::wstring b, short x);
  double operator /() const;
  std::string operator /(std::nullptr_t a, K1 & x1);
  K2 & operator /(char key0, PyTypeObject * a);
  const K2 & __floordiv__(unsigned char, int * key1);
};
class K3 {
PUBLISHED:
  K3(void * index);
  K3(PyObject * value, K0 & index);
  K3(const K3 &copy);
  K3 & clear_a() const;
  bool clear_a(PyObject *, int x = 1);
  bool remove_item(int * value);
  const K3 & remove_item(long long);
  const K3 * remove_item() const;
  int operator <(const K2 & c, std::wstring y1) const;
  const K3 & operator <(PyObject * index0, K3 index1, K1 & key2) const;
  double operator <(ConstPointerTo<K2> c0) const;
  int __and__(const std::string & a);
  K3 insert_item(K3 & b);
  double get_key(bool value0);
  PointerTo<K3> operator ++(const std::string & a0, const K4 * value);
  double operator ++(K4 & y, PointerTo<K2> x) const;
  MAKE_PROPERTY2(p2, get_key, clear_a);
  MAKE_PROPERTY(p3, clear_a);
  bool _m1;
};
class K4 : public ReferenceCount, public K1 {
PUBLISHED:
  explicit K4();
  K4(const K4 &copy);
  std::string __copy__(size_t key0) const;
  bool __ceil__(int, void *) const;
  K4 operator &=(std::nullptr_t) const;
  double __imatmul__(const K2 & value, K2 &, const K3 & index) const;
  int __imatmul__(char c, unsigned int c, int * value2);
  PyObject * __delitem__(K2 *, short b);
  K4 & get_item();
  PointerTo<K4> get_item();
  static bool get_item(size_t x0 = 1, int value = 0);
  static bool __ipow__(K1 value0, double);
  K4 & __ipow__() const;
  K4 operator >(std::wstring key0, std::nullptr_t b) const;
  size_t operator >(std::nullptr_t y0);
  const K4 & __enter__(unsigned long long x0, ConstPointerTo<K1> value, ConstPointerTo<K4> index2) const;
  double __setitem__(void *, int key = 0) const;
  PyObject * __setitem__(K4 & c) const;
  int __traverse__();
  double __traverse__(const char * a, K1);
  PyObject * __str__(ConstPointerTo<K2>);
  PyObject * __str__(const K0 & a0, char b1);
  const K4 * operator []() const;
  MAKE_SEQ_PROPERTY(p3, __copy__, __copy__, __ipow__);
  MAKE_MAP_PROPERTY(p3, __str__, __str__, __ceil__);
  MAKE_PROPERTY(p3, __imatmul__);
};
BEGIN_PUBLISH
END_PUBLISH

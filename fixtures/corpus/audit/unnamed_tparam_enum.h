template<class> struct S { enum E { a = 1, b = a }; };

template<class> struct S {
__published:
  static const int a = 1;
  int arr[a];
};
typedef S<int> SI;

#include "pre.h"
#include <string>
class ReferenceCount { PUBLISHED: void ref() const; bool unref() const; int get_ref_count() const; };
template<class T> class PointerTo { public: PointerTo(T *p = nullptr); T *p() const; };
template<class T> class ConstPointerTo { public: ConstPointerTo(const T *p = nullptr); const T *p() const; };
class TypedObject { PUBLISHED: int get_type() const; static int get_class_type(); };
class K0;
class K1;
class K2;
class K3;
class K0 : public TypedObject {
PUBLISHED:
  explicit K0();
  explicit K0(short a0, const K2 & y);
  K0(ConstPointerTo<K3> a0);
  K0(int * c);
  static K0 set_a(int, const K0 *);
  PyObject * set_a(std::wstring, char c1) const;
  bool operator /=(short) const;
  void __bool__(double a0, ConstPointerTo<K1> b);
  int __rmatmul__(K3 index, PyObject * x1) const;
  K0 & __rmatmul__(bool b, bool value, size_t y);
  PyObject * set_a(const K2 * x0, const std::string & value) const;
  K0 * __anext__();
  double __anext__(ConstPointerTo<K3> x, long long a) const;
  double operator ^=(K2 & a, K3) const;
  int operator ^=(K0 *);
  const K0 & operator ^=();
  const K0 * bar(K1 * y0, const K0 & a, K3 c2) const;
  bool bar(const K1 * y) const;
  std::string get_num_items();
  MAKE_MAP_PROPERTY(p1, __bool__, get_num_items, __anext__, bar);
  MAKE_MAP_PROPERTY(p3, bar, __rmatmul__, set_a, __bool__);
  MAKE_SEQ_PROPERTY(p2, __rmatmul__, get_num_items, __rmatmul__);
  bool _m3;
};
class K1 {
PUBLISHED:
  K1();
  K1(PyObject * c0, short b1);
  K1(const K3 & value);
  K1(K1 & c);
  bool has_item(PyObject *) const;
  void has_item(const K2 & key, unsigned char y1);
  bool __traverse__();
  int __traverse__(size_t, bool a1, size_t index) const;
  PyObject * get_b(const K3 * value0) const;
  K1 & insert_item(long long c, long long);
  PyObject * __traverse__(K2 x, PointerTo<K3>);
  static const K1 & __traverse__();
  PyObject * __traverse__(std::nullptr_t b, int * key, K3) const;
  PyObject * has_a(K1 * index0, const K1 &);
  static K1 has_a(long long value = 1, int a = 0);
  MAKE_PROPERTY(p2, has_a);
};
class K2 : public ReferenceCount, public TypedObject {
PUBLISHED:
  K2();
  explicit K2();
  explicit K2();
  K2(const K2 &copy);
  static PointerTo<K2> __pow__(int key);
  void __pow__(const K1 * a0, float key1, size_t b) const;
  static int __float__(int value0, const std::string & key, K3 & index);
  int operator *(unsigned char c, unsigned int b1) const;
  PyObject * __init__(double);
  K2 * get_a(K3, const K1 * y) const;
  const K2 & get_a();
  K2 * __matmul__(int key0, K0 &);
  K2 get_item(char index0) const;
  K2 bar(void * a, std::string);
  void __copy__(const K3 * a);
  K2 __eq__(K3 * a0, PointerTo<K1> value);
  static K2 & bar(K1 & value, const K1 *);
  K2 & remove_item(wchar_t, size_t = 1);
};
class K3 : public ReferenceCount, public TypedObject {
PUBLISHED:
  K3(const K3 &copy);
  PointerTo<K3> clear_a(K3 x, const char * b) const;
  std::string clear_a();
  K3 * operator <=(long long a) const;
  K3 & operator []();
  PointerTo<K3> operator []() const;
  K3 * operator [](K3 * c0) const;
  void operator -=(unsigned int key0) const;
  double __hash__(int value0, char) const;
  K3 __hash__() const;
  K3 * __hash__(K1 value0, const K1 * index) const;
  const K3 & __ipow__(long long c);
  int has_a();
  const K3 * has_a(K3 *, K0 *) const;
  K3 * has_a(void *);
  K3 * get_a(const K2 & x0) const;
  const K3 * __add__(wchar_t value0);
  const K3 * __add__(int c0, K1 & a);
  static int __add__(double y = 2);
  const K3 * __pow__(double, std::wstring index) const;
  static bool get_a(const char * value0);
  K3 & get_a(unsigned int b, K0 * b) const;
  operator double();
  MAKE_SEQ(seq_p0, __add__, clear_a);
  bool _m1;
  double _m3;
};
BEGIN_PUBLISH
int gf();
END_PUBLISH

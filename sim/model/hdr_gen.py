"""Small seeded generator of interrogate-style headers and multi-library header
sets (DESIGN.md: hdr_gen).  Output is a function of the Rng only."""

PRIMS = ["int", "long", "unsigned", "short", "bool", "char", "float", "double", "const char *",
         "unsigned char", "long long", "unsigned long", "signed char", "unsigned short"]


def gen_class(rng, name, bases=(), n_methods=4, overload_heavy=False, other_types=()):
    """Returns the text of one class."""
    out = []
    inh = ""
    if bases:
        inh = " : " + ", ".join("public " + b for b in bases)
    out.append("class %s%s {" % (name, inh))
    out.append("__published:")
    out.append("  %s();" % name)
    if rng.chance(1, 2):
        out.append("  %s(const %s &copy);" % (name, name))
    if rng.chance(1, 3):
        out.append("  explicit %s(int a, double b = %d.5);" % (name, rng.below(9)))
    if rng.chance(1, 3):
        out.append("  virtual ~%s();" % name)
    for m in range(n_methods):
        ret = rng.choice(PRIMS + ["void", "void"] + list(other_types[:2]))
        if ret in other_types:
            ret = ret + " *"
        nparams = rng.below(4)
        params = []
        for p in range(nparams):
            t = rng.choice(PRIMS + list(other_types[:3]))
            if t in other_types:
                t = rng.choice(["const %s &", "%s *"]) % t
            d = ""
            if p == nparams - 1 and rng.chance(1, 3) and not t.endswith("&") and not t.endswith("*"):
                d = " = %d" % rng.below(100)
            params.append("%s p%d%s" % (t, p, d))
        const = " const" if rng.chance(1, 2) else ""
        static = "static " if rng.chance(1, 6) else ""
        if static:
            const = ""
        if rng.chance(1, 4):
            out.append("  /** Doc for m%d of %s: \"quoted\" \\ backslash. */" % (m, name))
        out.append("  %s%s m%d(%s)%s;" % (static, ret, m, ", ".join(params), const))
    if overload_heavy:
        # overload sets the most-specific-first comparator cannot separate
        ts = rng.shuffle(["long", "unsigned", "short", "bool", "int", "char", "float", "double",
                          "unsigned char", "long long", "unsigned long", "signed char"])[:rng.range(4, 10)]
        for t in ts:
            out.append("  void ov(%s v);" % t)
        ts = rng.shuffle(["long", "unsigned", "short", "bool", "double", "float"])[:rng.range(3, 6)]
        for t in ts:
            out.append("  int ov2(%s a, int b = 0);" % t)
    if rng.chance(1, 2):
        out.append("  int get_v() const;")
        out.append("  void set_v(int v);")
        out.append("  __make_property(v, get_v, set_v);")
    if rng.chance(1, 3):
        out.append("  int get_num_e() const;")
        out.append("  int get_e(int n) const;")
        out.append("  __make_seq(get_es, get_num_e, get_e);")
    if rng.chance(1, 3):
        out.append("  enum E%s { E%s_a, E%s_b = %d };" % (name, name, name, rng.range(2, 50)))
    if rng.chance(1, 4):
        out.append("  int field_%s;" % name.lower())
    if rng.chance(1, 4):
        # bit-fields: a literal width, and one the parser cannot evaluate (member of a template that is only declared)
        out.append("  int bits_%s : %d;" % (name.lower(), rng.range(1, 9)))
        if rng.chance(1, 2):
            out.append("  unsigned wide_%s : HdrGenTraits<%s>::length_bits;" % (name.lower(), name))
    out.append("};")
    return "\n".join(out) + "\n"


def gen_header(rng, prefix, n_classes, overload_heavy=True, n_macros=3, n_funcs=2, includes=(), ext_bases=None, ext_typedefs=()):
    """One header.  ext_bases: {class index: [base names from other libs]};
    ext_typedefs: names of classes in other libs to typedef."""
    guard = prefix.upper() + "_H"
    out = ["#ifndef %s" % guard, "#define %s" % guard]
    for inc in includes:
        out.append('#include "%s"' % inc)
    out.append("template<class T> struct HdrGenTraits;")
    for i in range(n_macros):
        kind = rng.below(4)
        if kind == 0:
            out.append("#define %s_M%d %d" % (prefix.upper(), i, rng.below(1000)))
        elif kind == 1:
            out.append('#define %s_M%d "s%d t"' % (prefix.upper(), i, rng.below(1000)))
        elif kind == 2:
            out.append("#define %s_M%d %d.25" % (prefix.upper(), i, rng.below(100)))
        else:
            out.append("#define %s_M%d (%s_M0 + %d)" % (prefix.upper(), i, prefix.upper(), i))
    names = []
    for c in range(n_classes):
        name = "%s_C%d" % (prefix.capitalize(), c)
        bases = []
        if names and rng.chance(1, 3):
            bases.append(rng.choice(names))
        if ext_bases and c in ext_bases:
            bases.extend(ext_bases[c])
        out.append(gen_class(rng, name, bases, n_methods=rng.range(1, 6),
                             overload_heavy=overload_heavy and rng.chance(1, 2), other_types=names))
        names.append(name)
    for i, t in enumerate(ext_typedefs):
        out.append("typedef %s %s_T%d;" % (t, prefix.capitalize(), i))
    if n_funcs:
        out.append("#define %s_ORIGIN(f) f" % prefix.upper())
        out.append("__published:")
        out.append("const char *%s_where(const char *file = %s_ORIGIN(__FILE__), int line = __LINE__, const char *direct = __FILE__);" % (prefix, prefix.upper()))
        for f in range(n_funcs):
            out.append("int %s_f%d(int a, double b = 1.5);" % (prefix, f))
        out.append("extern int %s_var;" % prefix)
    out.append("#endif")
    return "\n".join(out) + "\n", names

"""Synthetic database generator (DESIGN.md: idb_gen).  Generates k libraries
jointly so that they share types by true name in every configuration, with
every field distinct and non-default, adversarial strings and unique tags.
Output is a function of the Rng only."""
from . import idb_format as F

ADVERSARIAL = [
    b"", b" ", b"  leading and trailing  ", b"two\nlines", b"\n", b"12 starts with digits", b"0", b"7", b"-3 x",
    b'"quoted"', b"back\\slash", b"tab\there", b"cr\rlf\r\n", b"caf\xc3\xa9 utf8", b"latin\xe9\xff\xfe", b"\xff", b"\x80\x81",
    b"a" * 200, b"semi;colon, comma", b"1 2 3 4", b"3 abc", b"%d %s %n", b"trailing newline\n", b"\n\nleading newlines",
]

TYPE_FLAG_BITS = [0x2, 0x4, 0x8, 0x10, 0x20, 0x40, 0x80, 0x100, 0x200, 0x400, 0x800, 0x1000, 0x4000, 0x8000, 0x10000, 0x20000, 0x40000,
                  0x80000, 0x100000, 0x800000, 0x1000000, 0x2000000]


def adv(rng, tag, empty_ok=True):
    """A string carrying a unique tag plus adversarial content."""
    r = rng.below(10)
    if r == 0 and empty_ok:
        return b""
    a = rng.choice(ADVERSARIAL)
    if r < 4:
        return a + tag.encode() + a[:5]
    if r < 7:
        return tag.encode() + b" " + a
    return tag.encode()


def _flags(rng, bits):
    f = 0
    for b in bits:
        if rng.chance(1, 3):
            f |= b
    return f


def gen_universe(rng, k, size=4, shared=3, minor_choices=(3,)):
    """Returns a list of k parsed-database dicts (each also tagged with 'minor').

    Shared types: `shared` true names "sh<j>", each with a role per library in
    {absent, forward, forward-global, full, full-global, hidden}; plus wrapper types
    ("int", "sh<j> *") duplicated in several libraries."""
    roles = []
    for j in range(shared):
        while True:
            rs = [rng.choice(["absent", "forward", "forward", "forward-global", "full", "full-global", "hidden"]) for _ in range(k)]
            if sum(1 for r in rs if r != "absent") >= min(2, k):
                break
        roles.append(rs)
    dbs = []
    for li in range(k):
        dbs.append(_gen_lib(rng, li, k, size, [(j, roles[j][li]) for j in range(shared) if roles[j][li] != "absent"], rng.choice(list(minor_choices))))
    return dbs


def _gen_lib(rng, li, k, size, shared_roles, minor):
    L = "L%d" % li
    nw = rng.range(1, size + 1)
    nf = rng.range(1, size + 1)
    nown = rng.range(1, size + 1)
    nm = rng.range(0, size)
    ne = rng.range(0, size)
    ns = rng.range(0, max(1, size // 2))
    nwrapt = rng.range(0, 2)            # duplicated atomic/pointer wrapper types
    # canonical index order: wrappers, functions, types, manifests, elements, make_seqs
    idx = 1
    W = list(range(idx, idx + nw)); idx += nw
    Fn = list(range(idx, idx + nf)); idx += nf
    nt = nown + len(shared_roles) + nwrapt + (1 if nwrapt else 0)
    Ty = list(range(idx, idx + nt)); idx += nt
    M = list(range(idx, idx + nm)); idx += nm
    E = list(range(idx, idx + ne)); idx += ne
    S = list(range(idx, idx + ns)); idx += ns

    def pick(lst, none_ok=True):
        if not lst or (none_ok and rng.chance(1, 5)):
            return 0
        if rng.chance(1, 40):
            # "every flag/field combination": an index the file does not define (far above any merged index range,
            # so that it cannot come to denote another library's entity after renumbering)
            return 900000 + rng.below(1000)
        return rng.choice(lst)

    db = {"file_identifier": rng.range(1, 2_000_000_000), "major": 3, "minor": minor,
          "library_name": ("lib%s" % L).encode(), "library_hash_name": ("h%03d" % (li * 7 + rng.below(7)))[:4].encode(),
          "module_name": rng.choice([b"mod", b"mod", b"other", b""]),      # "" = a database generated without -module
          "functions": {}, "wrappers": {}, "types": {}, "manifests": {}, "elements": {}, "make_seqs": {}}
    for n, i in enumerate(W):
        tag = "%s.w%d" % (L, n)
        db["wrappers"][i] = {
            "name": adv(rng, tag), "alt_names": [],
            "flags": _flags(rng, [1, 2, 4, 8, 0x10, 0x20, 0x40]), "function": pick(Fn), "return_type": pick(Ty),
            "return_value_destructor": pick(Fn), "unique_name": db["library_hash_name"] + ("u%s%04d" % (L, n)).encode(),
            "comment": adv(rng, tag + ".c"),
            "parameters": [{"name": adv(rng, "%s.p%d" % (tag, p)), "flags": rng.below(8), "type": pick(Ty)} for p in range(rng.below(4))],
        }
    for n, i in enumerate(Fn):
        tag = "%s.f%d" % (L, n)
        db["functions"][i] = {
            "name": adv(rng, tag, empty_ok=False), "alt_names": [],
            "flags": _flags(rng, [1, 2, 4, 8, 0x10, 0x20, 0x40, 0x80, 0x400]), "class": pick(Ty), "scoped_name": adv(rng, tag + ".s"),
            "c_wrappers": [pick(W, False) for _ in range(rng.below(3))], "python_wrappers": [pick(W, False) for _ in range(rng.below(3))],
            "comment": adv(rng, tag + ".c"), "prototype": adv(rng, tag + ".proto"),
        }

    def mk_type(i, tag, true_name, name, full, glob, body=True):
        flags = _flags(rng, TYPE_FLAG_BITS)
        if full:
            flags |= F.TF_FULLY_DEFINED
        if glob:
            flags |= F.TF_GLOBAL
        t = {"name": name, "alt_names": [], "flags": flags, "scoped_name": adv(rng, tag + ".s"), "true_name": true_name,
             "outer_class": 0, "atomic_token": rng.below(10), "wrapped_type": 0, "array_size": 1,
             "constructors": [], "destructor": 0, "elements": [], "methods": [], "make_seqs": [], "casts": [],
             "derivations": [], "enum_values": [], "nested_types": [], "comment": adv(rng, tag + ".c")}
        if rng.chance(1, 6):
            t["flags"] |= F.TF_ARRAY
            t["array_size"] = rng.range(2, 99)
        if rng.chance(1, 5):
            t["flags"] |= F.TF_TYPEDEF
        if body:
            t["outer_class"] = pick(Ty)
            t["wrapped_type"] = pick(Ty)
            t["constructors"] = [pick(Fn, False) for _ in range(rng.below(3))]
            t["destructor"] = pick(Fn)
            t["elements"] = [pick(E, False) for _ in range(rng.below(3))] if E else []
            t["methods"] = [pick(Fn, False) for _ in range(rng.below(4))]
            t["make_seqs"] = [pick(S, False) for _ in range(rng.below(2))] if S else []
            t["casts"] = [pick(Fn, False) for _ in range(rng.below(2))]
            t["derivations"] = [{"flags": rng.below(8), "base": pick(Ty, False), "upcast": pick(Fn), "downcast": pick(Fn)} for _ in range(rng.below(3))]
            t["enum_values"] = [{"name": adv(rng, "%s.ev%d" % (tag, e)), "scoped_name": adv(rng, "%s.evs%d" % (tag, e)),
                                 "comment": adv(rng, "%s.evc%d" % (tag, e)), "value": rng.range(-1000, 100000)} for e in range(rng.below(3))]
            t["nested_types"] = [pick(Ty, False) for _ in range(rng.below(2))]
        return t

    ti = iter(Ty)
    for n in range(nown):
        i = next(ti)
        tag = "%s.t%d" % (L, n)
        tn = b"" if rng.chance(1, 8) else ("%s::T%d" % (L, n)).encode()
        nm_ = rng.choice([("T%d" % n).encode(), adv(rng, tag, empty_ok=False)])       # "T<n>" repeats across libraries: duplicate names
        db["types"][i] = mk_type(i, tag, tn, nm_, rng.chance(3, 4), rng.chance(1, 2))
    for (j, role) in shared_roles:
        i = next(ti)
        tag = "%s.sh%d" % (L, j)
        full = role.startswith("full")
        glob = role.endswith("global")
        # a forward declaration has no body; a full definition differs per library (conflict case keeps them distinguishable)
        t = mk_type(i, tag, ("sh%d" % j).encode(), ("Sh%d" % j).encode(), full, glob, body=full)
        if rng.chance(1, 8):
            t["name"] = b""      # a record with a true name and no short name is the same type all the same
        if role == "hidden":
            # what interrogate writes for a local class without published members: not fully defined, but with its bases
            t["flags"] |= F.TF_UNPUBLISHED
            t["derivations"] = [{"flags": rng.below(8), "base": pick(Ty, False), "upcast": pick(Fn), "downcast": pick(Fn)} for _ in range(rng.range(1, 3))]
        elif not full and rng.chance(1, 2):
            t["flags"] &= ~F.TF_UNPUBLISHED
        db["types"][i] = t
    if nwrapt:
        i = next(ti)
        t = mk_type(i, "int", b"int", b"int", True, False, body=False)
        t["flags"] = 0x2 | F.TF_FULLY_DEFINED
        t["array_size"] = 1
        t["atomic_token"] = 1
        t["scoped_name"] = b"int"
        t["comment"] = b""
        db["types"][i] = t
        base = i
        for n in range(nwrapt):
            i = next(ti)
            t = mk_type(i, "int*", b"int " + b"*" * (n + 1), b"int " + b"*" * (n + 1), True, False, body=False)
            t["flags"] = 0x80 | 0x100 | F.TF_FULLY_DEFINED
            t["array_size"] = 1
            t["wrapped_type"] = base
            t["scoped_name"] = t["name"]
            t["comment"] = b""
            t["atomic_token"] = 0
            db["types"][i] = t
            base = i
    for n, i in enumerate(M):
        tag = "%s.m%d" % (L, n)
        db["manifests"][i] = {"name": rng.choice([("M%d" % n).encode(), adv(rng, tag, empty_ok=False)]), "alt_names": [],
                              "flags": rng.below(8), "int_value": rng.range(-5000, 5000), "type": pick(Ty), "getter": pick(Fn),
                              "definition": adv(rng, tag + ".def")}
    for n, i in enumerate(E):
        tag = "%s.e%d" % (L, n)
        db["elements"][i] = {"name": rng.choice([("e%d" % n).encode(), adv(rng, tag, empty_ok=False)]), "alt_names": [],
                             "flags": _flags(rng, [1, 2, 4, 8, 0x10, 0x20, 0x40, 0x80, 0x100, 0x200]), "type": pick(Ty),
                             "getter": pick(Fn), "setter": pick(Fn), "has_function": pick(Fn), "clear_function": pick(Fn),
                             "del_function": pick(Fn), "length_function": pick(Fn), "insert_function": pick(Fn), "getkey_function": pick(Fn),
                             "scoped_name": adv(rng, tag + ".s", empty_ok=False), "comment": adv(rng, tag + ".c")}
        if minor < 3:
            db["elements"][i]["insert_function"] = db["elements"][i]["getkey_function"] = 0
        if minor < 2:
            db["elements"][i]["del_function"] = db["elements"][i]["length_function"] = 0
        if minor < 1:
            db["elements"][i]["has_function"] = db["elements"][i]["clear_function"] = 0
    for n, i in enumerate(S):
        tag = "%s.q%d" % (L, n)
        db["make_seqs"][i] = {"name": adv(rng, tag, empty_ok=False), "alt_names": [], "length_getter": pick(Fn), "element_getter": pick(Fn),
                              "scoped_name": adv(rng, tag + ".s"), "comment": adv(rng, tag + ".c")}
    return db


def with_alt_names(rng, db, p_num=1, p_den=3):
    """Adds alternate names to a random subset of records (the file format carries them)."""
    for sec in F.SECTIONS:
        for i, rec in db[sec].items():
            if rng.chance(p_num, p_den):
                rec["alt_names"] = [adv(rng, "alt%d.%d" % (i, a), empty_ok=False) for a in range(rng.range(1, 3))]
    return db

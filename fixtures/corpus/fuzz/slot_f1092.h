#include "pre.h"
#include <string>
class ReferenceCount { PUBLISHED: void ref() const; bool unref() const; int get_ref_count() const; };
template<class T> class PointerTo { public: PointerTo(T *p = nullptr); T *p() const; };
template<class T> class ConstPointerTo { public: ConstPointerTo(const T *p = nullptr); const T *p() const; };
class TypedObject { PUBLISHED: int get_type() const; static int get_class_type(); };
class K0;
class K1;
class K2;
class K3;
class K4;
class K0 : public ReferenceCount, public TypedObject {
PUBLISHED:
  K0();
  K0();
  K0(K4 *, std::nullptr_t);
  K0(PyTypeObject * index, ConstPointerTo<K4> b1);
  PyObject * has_a(const K1 * key0);
  K0 * has_a(const K1 & key, std::string) const;
  K0 * operator <=>(wchar_t) const;
  K0 * operator <=>() const;
  int __getbuffer__();
  K0 * __getbuffer__(short c, const K4 & a1);
  K0 __getbuffer__(const std::string & c0, PointerTo<K0> c1);
  const K0 & __invert__(ConstPointerTo<K1> index, const K4 * key) const;
  const K0 & __invert__(double c, std::nullptr_t index1) const;
  int __invert__();
  void __repr__(PointerTo<K1>, std::string a1, ConstPointerTo<K3> x) const;
  K0 & operator ==(bool c0);
  K0 * operator ++(short value0) const;
  std::string operator ++(ConstPointerTo<K2> x0) const;
  bool get_b(ConstPointerTo<K4> y, char c);
  PointerTo<K0> get_b(Py_buffer * c0);
  const K0 * has_item(ConstPointerTo<K2> index0);
  PointerTo<K0> operator +(std::wstring index, std::nullptr_t x);
  double operator +() const;
  double __and__(bool c0, unsigned int c, PyObject * value) const;
  std::string __bool__() const;
  int __bool__() const;
  PointerTo<K0> __bool__(const K1 * a0) const;
  PointerTo<K0> get_b(ConstPointerTo<K3> a0) const;
  std::string get_b(K4 * x);
  MAKE_MAP_PROPERTY(p0, __bool__, __and__, get_b);
  MAKE_SEQ_PROPERTY(p2, __getbuffer__, __repr__, __repr__, has_item);
  std::string _m1;
};
class K1 : public TypedObject {
PUBLISHED:
  K1();
  K1(K2 & a, size_t a1);
  K1(PointerTo<K2> value, bool a, const K2 * c2);
  explicit K1(bool x, K2 b1);
  K1(const K1 &copy);
  void bar() const;
  PyObject * bar(const char * a0, PyTypeObject * b);
  operator bool() const;
  operator bool() const;
  const K1 * __rtruediv__(PointerTo<K0> x0) const;
  int operator !=(std::nullptr_t index) const;
  bool operator !=(PyObject * y0, const K1 * index);
  double operator -=(K4, PointerTo<K0> x);
  size_t operator -=(const K2 *) const;
  void operator -=();
  int __reduce__(K0 y, const K3 & x1) const;
  MAKE_PROPERTY2(p0, __rtruediv__, bar, bar, bar);
  MAKE_SEQ(seq_p0, bar, __reduce__);
  MAKE_SEQ_PROPERTY(p2, bar, __rtruediv__, __reduce__, __rtruediv__);
  float _m4;
};
class K2 : public ReferenceCount {
PUBLISHED:
  K2(float a);
  const K2 * __pow__(PyTypeObject * index);
  size_t __pow__();
  static PyObject * __pow__(K3 *, int * value1, K1 b2);
  int __sub__(K3 a0, K0 key);
  double operator >() const;
  const K2 & set_item() const;
  int get_key(float x0) const;
  const K2 & get_key(size_t value0 = 1);
};
class K3 {
PUBLISHED:
  K3(std::wstring index0);
  K3(short b0, char c);
  K3();
  const K3 * operator <(K0 key) const;
  PointerTo<K3> __or__(PyTypeObject * key, PointerTo<K4>) const;
  PyObject * operator +(unsigned long long c);
  K3 * operator +() const;
  std::string operator +(PyObject * x0, wchar_t);
  double operator ()(const K0 * index0) const;
  PyObject * operator ()(wchar_t key);
  const K3 & get_key(unsigned char x) const;
  std::string get_key(K3 &, char);
  static void has_item(const char * b0);
  std::string get_key();
  int __rand__() const;
  const K3 & __lshift__(Py_buffer * b);
  double get_b(ConstPointerTo<K0>, int x1 = 0) const;
  K3 & get_num_items();
  const K3 * insert_item(char) const;
  PyObject * insert_item(ConstPointerTo<K1> value, PyTypeObject * c1, bool) const;
  MAKE_SEQ_PROPERTY(p1, has_item, get_key, get_key);
  MAKE_PROPERTY(p3, has_item, has_item);
  double _m4;
};
class K4 : public K0 {
PUBLISHED:
  K4(const K4 &copy);
  std::string get_key(K0 index0) const;
  PyObject * __matmul__(PyObject * c) const;
  const K4 & __matmul__(int *) const;
  int __matmul__(std::string x0);
  const K4 * make_copy(unsigned long long y, const std::string & x1);
  double __ipow__();
  std::string __iter__(std::wstring x, K1 & value1) const;
  MAKE_PROPERTY2(p3, __iter__, __ipow__, __ipow__, __iter__);
  MAKE_MAP_PROPERTY(p0, __ipow__, make_copy, make_copy);
  MAKE_SEQ(seq_p1, __ipow__, __matmul__);
};
BEGIN_PUBLISH
K4 gh(K3 c0);
END_PUBLISH

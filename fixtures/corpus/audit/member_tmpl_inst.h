template<class T> struct Alloc {
  template<class U> struct rebind { typedef Alloc<U> other; };
};
Alloc<int>::rebind<char> r;

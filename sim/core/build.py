"""Builds /repo's current working tree (out of tree) and the simulator's own
C pieces.  Every check calls ensure() first; a no-op rebuild costs < 1 s.

Two flavours of the repository build (DESIGN.md section 3, "Build"):
  rel  exactly the baseline's configuration (RelWithDebInfo, NDEBUG)
  san  the same sources with ASan + UBSan + _GLIBCXX_ASSERTIONS
"""
import fcntl
import hashlib
import os
import subprocess
import sys

VERIF = os.path.dirname(os.path.dirname(os.path.dirname(os.path.abspath(__file__))))
REPO = os.environ.get("VERIF_REPO", "/repo")
GUARD = "INTERROGATE_VERIF"


def _suffix():
    if os.path.abspath(REPO) == "/repo":
        return ""
    return "-" + hashlib.sha1(os.path.abspath(REPO).encode()).hexdigest()[:8]


BUILD_ROOT = os.path.join(VERIF, "build")

SAN_FLAGS = ("-fsanitize=address,undefined -fno-omit-frame-pointer -D_GLIBCXX_ASSERTIONS "
             "-fno-sanitize-recover=bounds,null,object-size,pointer-overflow,alignment,return,unreachable,vla-bound "
             "-fsanitize-recover=signed-integer-overflow,shift,float-cast-overflow")


def build_dir(kind):
    return os.path.join(BUILD_ROOT, kind + _suffix())


def _run(cmd, log, **kw):
    with open(log, "ab") as f:
        f.write(("\n$ " + " ".join(cmd) + "\n").encode())
        f.flush()
        return subprocess.run(cmd, stdout=f, stderr=subprocess.STDOUT, **kw).returncode


def ensure(kind="rel", targets=("interrogate", "interrogate_module", "parse_file", "interrogatedb")):
    """Configure (once) and incrementally build the given targets.  Returns the build dir."""
    bdir = build_dir(kind)
    os.makedirs(BUILD_ROOT, exist_ok=True)
    lock = open(os.path.join(BUILD_ROOT, ".lock-" + kind + _suffix()), "w")
    fcntl.flock(lock, fcntl.LOCK_EX)
    try:
        log = os.path.join(BUILD_ROOT, "build-%s%s.log" % (kind, _suffix()))
        if os.path.exists(log) and os.path.getsize(log) > 4_000_000:
            os.unlink(log)
        if not os.path.exists(os.path.join(bdir, "build.ninja")):
            flags = "-Wno-error -D%s=1" % GUARD
            if kind == "san":
                flags += " " + SAN_FLAGS
            cmd = ["cmake", "-G", "Ninja", "-S", REPO, "-B", bdir,
                   "-DCMAKE_BUILD_TYPE=RelWithDebInfo", "-DBUILD_SHARED_LIBS=ON",
                   "-DCMAKE_CXX_FLAGS=" + flags, "-DCMAKE_C_FLAGS=" + flags, "-DBUILD_TESTING=OFF"]
            if kind == "san":
                cmd += ["-DCMAKE_EXE_LINKER_FLAGS=-fsanitize=address,undefined",
                        "-DCMAKE_SHARED_LINKER_FLAGS=-fsanitize=address,undefined"]
            if _run(cmd, log) != 0:
                sys.stderr.write("build: cmake configure failed, see %s\n" % log)
                raise SystemExit(3)
        cmd = ["cmake", "--build", bdir, "--target"] + list(targets)
        if _run(cmd, log) != 0:
            sys.stderr.write("build: compilation of /repo (%s) failed, see %s\n" % (kind, log))
            sys.stderr.write(open(log, "rb").read()[-3000:].decode("utf-8", "replace"))
            raise SystemExit(3)
    finally:
        fcntl.flock(lock, fcntl.LOCK_UN)
        lock.close()
    return bdir


def tool(kind, name):
    return os.path.join(build_dir(kind), "bin", name)


def libdb(kind):
    return os.path.join(build_dir(kind), "lib", "libinterrogatedb.so")


def _newer(src_list, out):
    if not os.path.exists(out):
        return True
    t = os.path.getmtime(out)
    return any(os.path.getmtime(s) > t for s in src_list)


def ensure_shims():
    """Builds libsimos.so and libsimheap.so into build/shim."""
    d = os.path.join(BUILD_ROOT, "shim")
    os.makedirs(d, exist_ok=True)
    lock = open(os.path.join(BUILD_ROOT, ".lock-shim"), "w")
    fcntl.flock(lock, fcntl.LOCK_EX)
    try:
        for name in ("simos", "simheap"):
            src = os.path.join(VERIF, "sim", "simos", name + ".c")
            if not os.path.exists(src):
                continue
            out = os.path.join(d, "lib%s.so" % name)
            if _newer([src], out):
                tmp = out + ".tmp%d" % os.getpid()
                r = subprocess.run(["gcc", "-O2", "-g", "-fPIC", "-shared", "-Wall", "-o", tmp, src, "-ldl"],
                                   stdout=subprocess.PIPE, stderr=subprocess.STDOUT)
                if r.returncode != 0:
                    sys.stderr.write(r.stdout.decode())
                    raise SystemExit(3)
                os.replace(tmp, out)
    finally:
        fcntl.flock(lock, fcntl.LOCK_UN)
        lock.close()
    return d


def ensure_helper(kind):
    """Builds libdbhelper.so against the given flavour of /repo's build."""
    bdir = build_dir(kind)
    src = os.path.join(VERIF, "sim", "helper", "dbhelper.cxx")
    out = os.path.join(bdir, "lib", "libdbhelper.so")
    lock = open(os.path.join(BUILD_ROOT, ".lock-helper-" + kind + _suffix()), "w")
    fcntl.flock(lock, fcntl.LOCK_EX)
    try:
        deps = [src, libdb(kind)] + [os.path.join(REPO, "src", "interrogatedb", f) for f in os.listdir(os.path.join(REPO, "src", "interrogatedb")) if f.endswith((".h", ".I"))]
        if _newer(deps, out):
            flags = ["-std=gnu++11", "-fPIC", "-shared", "-O1", "-g", "-fno-exceptions", "-fno-rtti", "-Wno-error", "-D%s=1" % GUARD, "-DNDEBUG"]
            if kind == "san":
                flags += SAN_FLAGS.split()
            inc = ["-I" + os.path.join(bdir, "cmake/src/interrogatedb"), "-I" + os.path.join(REPO, "src/interrogatedb"),
                   "-I" + os.path.join(bdir, "cmake/src/dtoolutil"), "-I" + os.path.join(REPO, "src/dtoolutil"),
                   "-I" + os.path.join(bdir, "cmake/src/dtoolbase"), "-I" + os.path.join(bdir, "include"), "-I" + os.path.join(REPO, "src/dtoolbase")]
            tmp = out + ".tmp%d" % os.getpid()
            cmd = ["g++"] + flags + inc + ["-o", tmp, src, "-L" + os.path.join(bdir, "lib"), "-linterrogatedb", "-Wl,-rpath," + os.path.join(bdir, "lib")]
            r = subprocess.run(cmd, stdout=subprocess.PIPE, stderr=subprocess.STDOUT)
            if r.returncode != 0:
                sys.stderr.write("build: dbhelper (%s) failed:\n%s\n" % (kind, r.stdout.decode()[-3000:]))
                raise SystemExit(3)
            os.replace(tmp, out)
    finally:
        fcntl.flock(lock, fcntl.LOCK_UN)
        lock.close()
    return out


def shim(name):
    return os.path.join(BUILD_ROOT, "shim", "lib%s.so" % name)


def repo_id():
    """git describe + hash of the working-tree diff of the repository being checked."""
    try:
        head = subprocess.run(["git", "-C", REPO, "rev-parse", "--short", "HEAD"], capture_output=True, text=True).stdout.strip()
        diff = subprocess.run(["git", "-C", REPO, "diff", "HEAD", "--", "src", "parser-inc", "cmake", "CMakeLists.txt"],
                              capture_output=True).stdout
        return {"head": head, "dirty": bool(diff), "diff_sha1": hashlib.sha1(diff).hexdigest()[:12]}
    except Exception as e:  # pragma: no cover
        return {"error": str(e)}


if __name__ == "__main__":
    kinds = sys.argv[1:] or ["rel", "san"]
    ensure_shims()
    for k in kinds:
        print("building", k, "->", ensure(k))

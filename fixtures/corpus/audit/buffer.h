#include <Python.h>
class Buf {
__published:
  Buf();
  int __getbuffer__(Py_buffer *buffer, int flags) const;
  void __releasebuffer__(Py_buffer *buffer) const;
  int __traverse__();
};

template<class T> struct Box { __published: T get() const; };
template<int N> using BA = Box<int>;
typedef BA<3> B3;
template<int> using BB = Box<long>;
typedef BB<4> B4;

template<class K> struct Map {
  enum class Mode { a, b = a };
  Mode mode;
};
typedef Map<int> M;

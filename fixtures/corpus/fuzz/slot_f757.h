#include "pre.h"
#include <string>
class ReferenceCount { PUBLISHED: void ref() const; bool unref() const; int get_ref_count() const; };
template<class T> class PointerTo { public: PointerTo(T *p = nullptr); T *p() const; };
template<class T> class ConstPointerTo { public: ConstPointerTo(const T *p = nullptr); const T *p() const; };
class TypedObject { PUBLISHED: int get_type() const; static int get_class_type(); };
class K0;
class K1;
class K2;
class K3;
class K4;
class K0 {
PUBLISHED:
  K0(const K1 & value, K1 & key1);
  K0();
  explicit K0();
  K0(const K0 &copy);
  static double has_a(unsigned long long key0, double value);
  double has_a(ConstPointerTo<K1>, unsigned char, ConstPointerTo<K4> y);
  K0 * __await__(K2 key, void * b, const K1 * b) const;
  PyObject * __await__(bool = 1) const;
  K0 * __await__() const;
  int __eq__(wchar_t a, const K1 & b1);
  double __eq__(K4 value0) const;
  size_t operator <<(std::nullptr_t a, K3 *);
  K0 * operator -(const K1 * b0, K2 c) const;
  double operator -(unsigned char x0) const;
  static K0 * __delattr__(wchar_t a0);
  int __delattr__();
  size_t __lshift__(const K4 *);
  K0 get_num_items(K0 *, K1 a1);
  PyObject * bar();
  size_t bar(std::wstring, const K0 *, std::string a) const;
  size_t bar(const K0 * index);
  static const K0 & get_num_items();
  bool clear_a(int * b, char x1, ConstPointerTo<K2> value) const;
  const K0 * operator =(K4 & b0);
  K0 * operator =(size_t a0) const;
  PointerTo<K0> operator =(const K2 * b, PyTypeObject * x, const char * index2);
  const K0 & has_item(void * value, int c1, std::wstring index) const;
  K0 & has_item() const;
  void has_item(wchar_t key0, short key);
  double _m4;
  int _m2;
};
class K1 : public ReferenceCount, public K0 {
PUBLISHED:
  K1(int);
  K1(const std::string & c0, double a);
  explicit K1(std::string, K4 & value1);
  static void output(unsigned int b, std::wstring x1);
  PyObject * output(K4 * key0);
  K1 __rsub__(K3 * key, K2 * value, bool y);
  K1 __floordiv__(long long = 2);
  bool __floordiv__(const K1 * x, size_t a = 2) const;
  MAKE_PROPERTY(p0, __rsub__);
  MAKE_SEQ(seq_p0, __floordiv__, __rsub__);
};
class K2 : public TypedObject, public K0 {
PUBLISHED:
  K2(long long);
  K2(std::wstring value, std::string);
  K2(long long b = 0);
  K2(float c0, const std::string & value1);
  double has_item() const;
  const K2 & has_item(int c = 0, int = 0);
  bool has_item(double index) const;
  K2 & insert_item();
  K2 has_item();
  const K2 * has_item(double, PointerTo<K1> value1);
  PointerTo<K2> has_item() const;
  size_t operator &(const std::string & b0, std::string y, const char *);
  const K2 & __mul__();
  int __ror__(unsigned long long);
  static K2 & __trunc__(ConstPointerTo<K4> value, K0 & c1);
  size_t __eq__();
  K2 & insert_item(bool b = 0, int = 0) const;
  MAKE_SEQ_PROPERTY(p2, insert_item, insert_item, __ror__, has_item);
  MAKE_PROPERTY2(p3, insert_item, has_item, has_item, __trunc__);
  MAKE_MAP_PROPERTY(p2, __ror__, has_item);
  const char * _m3;
};
class K3 : public ReferenceCount {
PUBLISHED:
  K3(size_t index, char x, float value2);
  K3();
  K3();
  K3(const K3 &copy);
  const K3 & operator /=(void * a, int * y1);
  int __ror__(Py_buffer * y0);
  PyObject * __ror__(Py_buffer * value, unsigned char b);
  PyObject * __ror__(PointerTo<K1> y) const;
  PyObject * foo() const;
  const K3 & foo(const char * c);
  const K3 & operator >();
  PyObject * operator &(Py_buffer * c0);
  std::string operator &(std::string x0);
  K3 & operator &(int y0 = 0) const;
  MAKE_PROPERTY2(p3, __ror__, foo, foo, __ror__);
  MAKE_SEQ_PROPERTY(p0, foo, foo, __ror__);
};
class K4 : public ReferenceCount {
PUBLISHED:
  K4();
  K4(short c, float);
  K4(bool = 2, int = 0, int = 0);
  K4(unsigned long long c0, K2 * c, const K3 & y2);
  std::string __mul__();
  PointerTo<K4> has_a() const;
  int has_a(unsigned char index0) const;
  double __traverse__(PointerTo<K0> key0, std::nullptr_t a) const;
  static K4 & __traverse__(PointerTo<K4> value, double c1 = 1, int key = 0);
  int operator +();
  const K4 & compare_to(K2, PointerTo<K4> b, wchar_t) const;
  MAKE_PROPERTY(p1, has_a);
};
BEGIN_PUBLISH
int gg(float b);
K3 * gg();
void gf(std::wstring, std::nullptr_t a1);
int gh(int * c, long long value);
K1 * gg();
END_PUBLISH

class Seq {
__published:
  Seq();
  int size() const;
  int __len__() const;
  int operator [](int i) const;
  int __getitem__(int i) const;
  int operator ()(int a) const;
  int __call__(int a) const;
  operator bool() const;
  bool __nonzero__() const;
  bool __bool__() const;
  Seq operator +(const Seq &o) const;
  Seq __add__(const Seq &o) const;
  Seq &operator +=(const Seq &o);
  Seq &__iadd__(const Seq &o);
  int __hash__() const;
  int get_hash() const;
  int compare_to(const Seq &o) const;
  bool operator ==(const Seq &o) const;
  bool operator <(const Seq &o) const;
  bool __eq__(const Seq &o) const;
};

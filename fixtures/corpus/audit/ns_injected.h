namespace ns { template<class T> struct Arr { __published: void assign(const Arr &other); }; }
typedef ns::Arr<float> FArr;

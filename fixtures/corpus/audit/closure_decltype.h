auto x = []{};
decltype(x) y;
struct A { decltype([](int){}) m; };
int f(decltype([]{}) p);

"""Jobs: one real tool invocation over files materialised in a scratch tree."""
import os
import shutil

from ..core import build, runner
from ..core.rng import Rng
from ..model import hdr_gen

FIX = os.path.join(build.VERIF, "fixtures")
PARSER_INC = os.path.join(build.REPO, "parser-inc")

BACKENDS = ["-c", "-python", "-python-native", "-python-obj"]


def read_fixture(rel):
    with open(os.path.join(FIX, rel)) as f:
        return f.read()


def igate_job(name, files, main, backend, channels=("oc", "od", "oh"), opts=(), incs=(), module="m", library=None, srcdir="src"):
    """An `interrogate` job.  files: {relative path under src/: text}; main: list of header basenames (in src/)."""
    library = library or ("lib" + name)
    outputs = {}
    argv = []
    ext = {"oc": ".cxx", "od": ".in", "oh": ".txt"}
    for ch in channels:
        outputs[ch] = "out-%s/%s%s" % (ch, library, ext[ch])
        argv += ["-" + ch, outputs[ch]]
    argv += ["-module", module, "-library", library, backend, "-D__cplusplus", "-S" + PARSER_INC]
    for i in incs:
        argv += ["-I", i]
    argv += list(opts)
    argv += ["-srcdir", srcdir] + list(main)
    return {"name": name, "tool": "interrogate", "files": {"src/" + k: v for k, v in files.items()},
            "argv": argv, "outputs": outputs, "nfiles": len(list(main))}


def module_job(name, dbs, backend, module="m", extra=()):
    """An `interrogate_module` job.  dbs: {relative path: bytes-as-latin1 text} of .in files (in cwd)."""
    outputs = {"oc": "out-oc/%s_module.cxx" % name}
    argv = ["-oc", outputs["oc"], "-module", module, "-library", module, backend] + list(extra) + list(dbs.keys())
    return {"name": name, "tool": "interrogate_module", "files": dict(dbs), "argv": argv, "outputs": outputs, "nfiles": len(dbs)}


def files_first(job):
    """The same job with its file arguments ahead of the options (both tools accept them anywhere on the command line)."""
    n = job.get("nfiles", 0)
    if not n:
        return job
    return dict(job, argv=job["argv"][-n:] + job["argv"][:-n])


def materialise(job, root):
    for rel, text in job["files"].items():
        p = os.path.join(root, rel)
        os.makedirs(os.path.dirname(p), exist_ok=True)
        with open(p, "wb") as f:
            f.write(text.encode("latin-1") if isinstance(text, str) else text)
    for rel in job["outputs"].values():
        os.makedirs(os.path.join(root, os.path.dirname(rel)), exist_ok=True)
    os.makedirs(os.path.join(root, "src"), exist_ok=True)


def run_job(job, root, kind="rel", plan=None, clock=None, env=None, preload=(), argv_override=None):
    exe = build.tool(kind, job["tool"])
    argv = [exe] + (argv_override if argv_override is not None else job["argv"])
    return runner.run_tool(argv, cwd=root, root=root, plan=plan, clock=clock, env=env, san=(kind == "san"), preload=preload)


def norm(data, root, strict=False):
    """Replaces the scratch root by $W (the tool embeds absolute output paths in #line)."""
    if data is None:
        return None
    if strict:
        # only the one place where the tool is known to embed an absolute path: the #line directive that names its own
        # code file in -python-native output.  Any other occurrence of the working directory stays visible.
        rb = root.encode()
        data = b"\n".join((l.replace(rb, b"$W") if l.startswith(b"#line ") else l) for l in data.split(b"\n"))
    else:
        data = data.replace(root.encode(), b"$W")
    # the tool echoes its own command line (argv[0] included) into the code file: the build flavour is not part of the output
    for kind in ("rel", "san"):
        data = data.replace((build.build_dir(kind) + "/bin/").encode(), b"$B/")
    return data


def collect_outputs(job, root, strict=False):
    return {ch: norm(runner.read_file(os.path.join(root, rel)), root, strict) for ch, rel in job["outputs"].items()}


def libs_fixture():
    """The hand-written three-library fixture: returns {lib: (files, main, incs)}."""
    a = read_fixture("libs/a/a.h")
    b = read_fixture("libs/b/b.h")
    c = read_fixture("libs/c/c.h")
    files = {"a/a.h": a, "b/b.h": b, "c/c.h": c}
    return {
        "a": dict(files=files, main=["a.h"], srcdir="src/a", incs=[]),
        "b": dict(files=files, main=["b.h"], srcdir="src/b", incs=["src/a"]),
        "c": dict(files=files, main=["c.h"], srcdir="src/c", incs=["src/a", "src/b"]),
    }


def big_header(seed, n_classes):
    rng = Rng(seed)
    text, _ = hdr_gen.gen_header(rng, "big", n_classes, overload_heavy=True, n_macros=6, n_funcs=4)
    return text


def cleanup(root):
    shutil.rmtree(root, ignore_errors=True)

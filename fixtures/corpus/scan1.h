// Hand-written corpus: one instance of every hand-scanned construct, in the
// middle of the file ...
#define OBJ 42
#define STR "string \"with\" escapes \\ and \x41\101\n"
#define FN(a, b) ((a) + (b))
#define VAR(fmt, ...) fn(fmt, __VA_ARGS__)
#define OPT(a, ...) f(a __VA_OPT__(,) __VA_ARGS__)
#define CAT(a, b) a ## b
#define STRINGIZE(x) #x
#define NESTED(x) FN(x, FN(x, 1))
#define EMPTY()
#define MULTI \
  line \
  macro

#if defined(OBJ) && OBJ > 40
int defined_obj = FN(1, 2);
#elif defined OBJ
int other;
#else
int neither;
#endif

#if (OBJ / 2) == 21 && (OBJ % 5) == 2 && (OBJ << 1) != (OBJ >> 1) && (OBJ ^ 3) | (OBJ & ~1)
int arith;
#endif
#if OBJ >= 1 && OBJ <= 100 && OBJ != 7 && !(OBJ < 0) || OBJ ? 1 : 0
int compare;
#endif
#if __has_include("scan1.h") && __has_include(<stddef.h>)
int has_inc;
#endif
#ifdef OBJ
#undef OBJ
#endif
#ifndef OBJ
#define OBJ 7
#endif
#pragma once
#line 100 "renamed.h"

const char *s1 = "plain string";
const char *s2 = "a" "b" L"wide" u8"utf8" u"u16" U"u32";
const char *s3 = R"delim(raw "string" with )" inside)delim";
char c1 = 'x', c2 = '\'', c3 = '\\', c4 = '\0', c5 = '\x7f';
int n1 = 0x1F, n2 = 0b1010, n3 = 017, n4 = 1'000'000, n5 = 10u, n6 = 10UL, n7 = 10ll;
double d1 = 1.5, d2 = 1e10, d3 = 1.5e-3f, d4 = .5, d5 = 5., d6 = 0x1.8p3;
int cat_result = CAT(n, 1);
const char *strz = STRINGIZE(a b "c");
int nested_result = NESTED(3) EMPTY();
int var_result = sizeof(int) + alignof(double);

/* block comment with * and / inside **/
// line comment with trailing backslash \
   continued

[[nodiscard]] int attr_fn([[maybe_unused]] int a) noexcept;
__attribute__((unused)) static int gnu_attr;
alignas(16) char aligned_buf[64];

template<class T, int N = 3>
struct Tmpl {
  T data[N];
  template<class U> U convert() const;
  static constexpr int size = N;
};
template<> struct Tmpl<int, 1> { int single; };
typedef Tmpl<double, (2 > 1) ? 2 : 1> TmplD;
using TmplAlias = Tmpl<char>;

namespace outer { namespace inner { enum class E : short { a = 1 << 2, b = a | 1 }; } }
namespace alias = outer::inner;

class Base { public: virtual ~Base() = default; virtual int pure() const = 0; };
class Derived final : public Base, private virtual Tmpl<int> {
__published:
  Derived() = default;
  Derived(const Derived &) = delete;
  int pure() const override;
  operator int() const;
  Derived &operator =(Derived &&other) noexcept;
  int operator ()(int a, ...) const;
  static_assert(sizeof(int) >= 2, "int too small");
  friend class Base;
  int bits : 3;
  mutable int mut;
  __make_property(prop, pure);
private:
  int (*fptr)(int, double);
  int (Derived::*mptr)(int) const;
  int arr[OBJ][2];
};

extern "C" { int c_linkage(void); }
auto lambda_holder = [](int a) -> int { return a + 1; };
decltype(n1) decl_var = 3;
constexpr int cexpr = FN(1, OBJ) * 2;
inline int inl(int x = sizeof(Derived)) { return x ? x : -x; }
enum Old { O_a, O_b = O_a + 5, O_c = 'c' };
union U { int i; float f; };
struct Fwd;
int use(Fwd *, const Base &, Derived &&, volatile int *const *);

// ... and near the end of the file:
#define TAIL(x, y) x + y
#if TAIL(1, 2) == 3 && defined(TAIL)
int tail_ok = TAIL(1, OBJ);
#endif
const char *tail_str = "tail \"str\"";
char tail_chr = '\n';
int tail_num = 1'0;
const char *tail_raw = R"x(tail)x";
#define LAST(a) (a)
template<class... Ts> struct Variadic { static constexpr int count = sizeof...(Ts); };
template<class T, class... Rest> struct Variadic<T, Rest...> { T head; Variadic<Rest...> tail; };
typedef Variadic<int, double, char> VariadicIDC;
Variadic<int, Variadic<long, short>, float> variadic_value;
#define SELF(x) SELF(x) + 1
int self_ref = 2;
#define PAIR(a, b) a, b
int pair_arr[] = { PAIR(1, PAIR(2, 3)) };

"""Independent reader/writer of interrogate's .in database format (DESIGN.md
Appendix A), minor versions 3.0-3.3.  Strings are bytes throughout.

A database is a dict:
  {"file_identifier": int, "major": int, "minor": int,
   "library_name": bytes, "library_hash_name": bytes, "module_name": bytes,
   "functions": {index: rec}, "wrappers": {...}, "types": {...},
   "manifests": {...}, "elements": {...}, "make_seqs": {...}}
Records are dicts with the field names of Appendix A.
"""

# type flags
TF_GLOBAL = 0x1
TF_FULLY_DEFINED = 0x2000
TF_UNPUBLISHED = 0x100000
TF_TYPEDEF = 0x200000
TF_NESTED = 0x40000
TF_ARRAY = 0x400000
FF_CONSTRUCTOR = 0x100
FF_DESTRUCTOR = 0x200

SECTIONS = ["functions", "wrappers", "types", "manifests", "elements", "make_seqs"]


class FormatError(Exception):
    pass


class Reader:
    def __init__(self, data):
        self.d = data
        self.p = 0

    def skip_ws(self):
        d, p = self.d, self.p
        while p < len(d) and d[p:p + 1] in b" \t\n\r\v\f":
            p += 1
        self.p = p

    def int(self):
        self.skip_ws()
        d, p = self.d, self.p
        q = p
        if q < len(d) and d[q:q + 1] in b"+-":
            q += 1
        s = q
        while q < len(d) and 48 <= d[q] <= 57:
            q += 1
        if q == s:
            raise FormatError("integer expected at offset %d" % p)
        self.p = q
        return int(d[p:q])

    def string(self):
        n = self.int()
        if n < 0:
            raise FormatError("negative string length at %d" % self.p)
        # one separator byte, then n bytes
        if self.p >= len(self.d):
            raise FormatError("eof after string length")
        self.p += 1
        s = self.d[self.p:self.p + n]
        if len(s) != n:
            raise FormatError("eof inside string")
        self.p += n
        return s

    def vec(self, item):
        n = self.int()
        if n < 0:
            raise FormatError("negative vector length")
        return [item() for _ in range(n)]


def _component(r):
    name = r.string()
    n = r.int()
    return name, [r.string() for _ in range(n)]


def _read_function(r, minor):
    name, alt = _component(r)
    f = {"name": name, "alt_names": alt}
    f["flags"] = r.int()
    f["class"] = r.int()
    f["scoped_name"] = r.string()
    f["c_wrappers"] = r.vec(r.int)
    f["python_wrappers"] = r.vec(r.int)
    f["comment"] = r.string()
    f["prototype"] = r.string()
    return f


def _read_param(r):
    p = {"name": r.string()}
    p["flags"] = r.int()
    p["type"] = r.int()
    return p


def _read_wrapper(r, minor):
    name, alt = _component(r)
    w = {"name": name, "alt_names": alt}
    w["flags"] = r.int()
    w["function"] = r.int()
    w["return_type"] = r.int()
    w["return_value_destructor"] = r.int()
    w["unique_name"] = r.string()
    w["comment"] = r.string()
    w["parameters"] = r.vec(lambda: _read_param(r))
    return w


def _read_derivation(r):
    return {"flags": r.int(), "base": r.int(), "upcast": r.int(), "downcast": r.int()}


def _read_enum_value(r):
    e = {"name": r.string(), "scoped_name": r.string(), "comment": r.string()}
    e["value"] = r.int()
    return e


def _read_type(r, minor):
    name, alt = _component(r)
    t = {"name": name, "alt_names": alt}
    t["flags"] = r.int()
    t["scoped_name"] = r.string()
    t["true_name"] = r.string()
    t["outer_class"] = r.int()
    t["atomic_token"] = r.int()
    t["wrapped_type"] = r.int()
    t["array_size"] = r.int() if t["flags"] & TF_ARRAY else 1
    t["constructors"] = r.vec(r.int)
    t["destructor"] = r.int()
    t["elements"] = r.vec(r.int)
    t["methods"] = r.vec(r.int)
    t["make_seqs"] = r.vec(r.int)
    t["casts"] = r.vec(r.int)
    t["derivations"] = r.vec(lambda: _read_derivation(r))
    t["enum_values"] = r.vec(lambda: _read_enum_value(r))
    t["nested_types"] = r.vec(r.int)
    t["comment"] = r.string()
    return t


def _read_manifest(r, minor):
    name, alt = _component(r)
    m = {"name": name, "alt_names": alt}
    m["flags"] = r.int()
    m["int_value"] = r.int()
    m["type"] = r.int()
    m["getter"] = r.int()
    m["definition"] = r.string()
    return m


def _read_element(r, minor):
    name, alt = _component(r)
    e = {"name": name, "alt_names": alt}
    e["flags"] = r.int()
    e["type"] = r.int()
    e["getter"] = r.int()
    e["setter"] = r.int()
    for a, b, need in (("has_function", "clear_function", 1), ("del_function", "length_function", 2), ("insert_function", "getkey_function", 3)):
        if minor >= need:
            e[a] = r.int()
            e[b] = r.int()
        else:
            e[a] = 0
            e[b] = 0
    e["scoped_name"] = r.string()
    e["comment"] = r.string()
    return e


def _read_make_seq(r, minor):
    name, alt = _component(r)
    s = {"name": name, "alt_names": alt}
    s["length_getter"] = r.int()
    s["element_getter"] = r.int()
    s["scoped_name"] = r.string()
    s["comment"] = r.string()
    return s


READERS = {"functions": _read_function, "wrappers": _read_wrapper, "types": _read_type,
           "manifests": _read_manifest, "elements": _read_element, "make_seqs": _read_make_seq}


def parse(data):
    """Parses a complete database file.  Raises FormatError on any damage."""
    r = Reader(data)
    db = {}
    db["file_identifier"] = r.int()
    db["major"] = r.int()
    db["minor"] = r.int()
    if db["major"] != 3 or not (0 <= db["minor"] <= 3):
        raise FormatError("unsupported version %d.%d" % (db["major"], db["minor"]))
    db["library_name"] = r.string()
    db["library_hash_name"] = r.string()
    db["module_name"] = r.string()
    for sec in SECTIONS:
        n = r.int()
        recs = {}
        for _ in range(n):
            idx = r.int()
            recs[idx] = READERS[sec](r, db["minor"])
        db[sec] = recs
    r.skip_ws()
    if r.p != len(r.d):
        raise FormatError("trailing bytes at %d" % r.p)
    return db


# ---------------------------------------------------------------- writer

def _s(s, ws=b" "):
    if len(s) == 0:
        return b"%d" % 0 + ws
    return b"%d" % len(s) + ws + s + ws


def _v(items, fmt=lambda x: b"%d" % x):
    return b"%d " % len(items) + b"".join(fmt(x) + b" " for x in items)


def _w_component(rec):
    return _s(rec["name"]) + b"%d " % len(rec["alt_names"]) + b"".join(_s(a) for a in rec["alt_names"])


def _w_function(f, minor):
    return (_w_component(f) + b"%d %d " % (f["flags"], f["class"]) + _s(f["scoped_name"]) + _v(f["c_wrappers"]) +
            _v(f["python_wrappers"]) + _s(f["comment"], b"\n") + _s(f["prototype"], b"\n"))


def _w_wrapper(w, minor):
    def par(p):
        return _s(p["name"]) + b"%d %d " % (p["flags"], p["type"])
    return (_w_component(w) + b"%d %d %d %d " % (w["flags"], w["function"], w["return_type"], w["return_value_destructor"]) +
            _s(w["unique_name"]) + _s(w["comment"]) + _v(w["parameters"], par))


def _w_type(t, minor):
    def der(d):
        return b"%d %d %d %d" % (d["flags"], d["base"], d["upcast"], d["downcast"])

    def ev(e):
        return _s(e["name"]) + _s(e["scoped_name"]) + _s(e["comment"], b"\n") + b"%d" % e["value"]
    out = _w_component(t) + b"%d " % t["flags"] + _s(t["scoped_name"]) + _s(t["true_name"])
    out += b"%d %d %d " % (t["outer_class"], t["atomic_token"], t["wrapped_type"])
    if t["flags"] & TF_ARRAY:
        out += b"%d " % t["array_size"]
    out += _v(t["constructors"]) + b"%d " % t["destructor"] + _v(t["elements"]) + _v(t["methods"]) + _v(t["make_seqs"]) + _v(t["casts"])
    out += _v(t["derivations"], der) + _v(t["enum_values"], ev) + _v(t["nested_types"]) + _s(t["comment"], b"\n")
    return out


def _w_manifest(m, minor):
    return _w_component(m) + b"%d %d %d %d " % (m["flags"], m["int_value"], m["type"], m["getter"]) + _s(m["definition"])


def _w_element(e, minor):
    out = _w_component(e) + b"%d %d %d %d " % (e["flags"], e["type"], e["getter"], e["setter"])
    if minor >= 1:
        out += b"%d %d " % (e["has_function"], e["clear_function"])
    if minor >= 2:
        out += b"%d %d " % (e["del_function"], e["length_function"])
    if minor >= 3:
        out += b"%d %d " % (e["insert_function"], e["getkey_function"])
    return out + _s(e["scoped_name"]) + _s(e["comment"], b"\n")


def _w_make_seq(s, minor):
    return _w_component(s) + b"%d %d " % (s["length_getter"], s["element_getter"]) + _s(s["scoped_name"]) + _s(s["comment"], b"\n")


WRITERS = {"functions": _w_function, "wrappers": _w_wrapper, "types": _w_type,
           "manifests": _w_manifest, "elements": _w_element, "make_seqs": _w_make_seq}


def serialise(db, minor=None, major=None):
    """Renders a database in the given minor format (default: db['minor'])."""
    minor = db["minor"] if minor is None else minor
    major = db["major"] if major is None else major
    out = [b"%d\n%d %d\n" % (db["file_identifier"], major, minor)]
    out.append(_s(db["library_name"]) + _s(db["library_hash_name"]) + _s(db["module_name"]) + b"\n")
    for sec in SECTIONS:
        recs = db[sec]
        out.append(b"%d\n" % len(recs))
        for idx in sorted(recs):
            out.append(b"%d " % idx + WRITERS[sec](recs[idx], minor) + b"\n")
    return b"".join(out)


INDEX_FIELDS = {
    "functions": (["class"], ["c_wrappers", "python_wrappers"]),
    "wrappers": (["function", "return_type", "return_value_destructor"], []),
    "types": (["outer_class", "wrapped_type", "destructor"], ["constructors", "elements", "methods", "make_seqs", "casts", "nested_types"]),
    "manifests": (["type", "getter"], []),
    "elements": (["type", "getter", "setter", "has_function", "clear_function", "del_function", "length_function", "insert_function", "getkey_function"], []),
    "make_seqs": (["length_getter", "element_getter"], []),
}

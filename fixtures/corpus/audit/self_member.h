struct C {
  struct C;
  int m;
};

"""splitmix64 / xoshiro256** -- own PRNG so that a seed means the same run on
every Python version and under every PYTHONHASHSEED."""

M64 = (1 << 64) - 1


def splitmix64(x):
    x = (x + 0x9E3779B97F4A7C15) & M64
    z = x
    z = ((z ^ (z >> 30)) * 0xBF58476D1CE4E5B9) & M64
    z = ((z ^ (z >> 27)) * 0x94D049BB133111EB) & M64
    return z ^ (z >> 31)


def tag(s):
    """FNV-1a 64 of a string (scenario tags)."""
    h = 0xCBF29CE484222325
    for b in s.encode():
        h = ((h ^ b) * 0x100000001B3) & M64
    return h


def _rotl(x, k):
    return ((x << k) | (x >> (64 - k))) & M64


class Rng:
    def __init__(self, seed):
        s = seed & M64
        self.s = []
        for _ in range(4):
            s = (s + 0x9E3779B97F4A7C15) & M64
            self.s.append(splitmix64(s))

    def next(self):
        s = self.s
        result = (_rotl((s[1] * 5) & M64, 7) * 9) & M64
        t = (s[1] << 17) & M64
        s[2] ^= s[0]
        s[3] ^= s[1]
        s[1] ^= s[2]
        s[0] ^= s[3]
        s[2] ^= t
        s[3] = _rotl(s[3], 45)
        return result

    def below(self, n):
        """Uniform integer in [0, n)."""
        if n <= 0:
            return 0
        return self.next() % n

    def range(self, lo, hi):
        """Uniform integer in [lo, hi]."""
        return lo + self.below(hi - lo + 1)

    def chance(self, num, den):
        return self.below(den) < num

    def choice(self, seq):
        return seq[self.below(len(seq))]

    def shuffle(self, seq):
        seq = list(seq)
        for i in range(len(seq) - 1, 0, -1):
            j = self.below(i + 1)
            seq[i], seq[j] = seq[j], seq[i]
        return seq

    def sample(self, seq, k):
        return self.shuffle(seq)[:k]

    def subset(self, seq, num=1, den=2):
        return [x for x in seq if self.chance(num, den)]


def run_rng(seed, scenario, index):
    """PRNG of run `index` of `scenario` under VERIF_SEED `seed`."""
    return Rng(splitmix64((seed & M64) ^ tag(scenario)) + index)


def fnv1a(data, h=0xCBF29CE484222325):
    if isinstance(data, str):
        data = data.encode("utf-8", "surrogateescape")
    for b in data:
        h = ((h ^ b) * 0x100000001B3) & M64
    return h

struct A;
struct B : A {
__published:
  B();
};
struct A : B {
__published:
  A();
};

#define G(t,v) v
#define L G(a, L x = L
int p = L;

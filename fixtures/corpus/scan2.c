/* C-flavoured corpus file: directives at the very end, no trailing newline
   after the last construct in some variants. */
#include <stddef.h>
#include "scan_inc.h"
#define A 6
#define B (A / 3)
#define C (A % 4)
#if B == 2 && C == 2 && (A / B) == 3
typedef struct point { int x, y; } point_t;
#endif
#if defined(A) && !defined(UNDEFINED_THING) && (defined B)
static int arr[A * 2];
#endif
int main(int argc, char **argv) {
  point_t p = { 1, 2 };
  return p.x + INC_VALUE + sizeof(arr) / sizeof(arr[0]);
}
#ifdef A /* trailing blank after the comment */ 
#else /* tab after the comment */	
#endif /* done */ 
#define CONTINUED 1 \
 
int after_continued = CONTINUED;
#if A /* comment */ > 2 /* another */ 	 
#endif
#pragma once
#if __has_include("scan_inc.h")
#endif
#ifdef A
#else
#endif
#define END_FN(x) ((x) / A)
#if END_FN(12) == 2
#endif

struct P { __published: struct C; int f(); };
struct Q { friend struct P::C { __published: int m; }; };

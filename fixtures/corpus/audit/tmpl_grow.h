template<class T> struct P {
__published:
  P();
  P<T*> address() const;
};
typedef P<int> PI;

template<class... Ts> struct Tup {
__published:
  int f();
};
typedef Tup<> T0;
struct U {
__published:
  Tup<> get();
};

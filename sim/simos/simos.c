/*
 * simos.c -- the simulated kernel file layer and clock for interrogate's
 * tools (LD_PRELOAD seam; see DESIGN.md 2.2).
 *
 * Activated only when SIMOS_ROOT is set.  Acts only on paths under SIMOS_ROOT
 * (the run's scratch tree); everything else passes straight through.
 *
 *   SIMOS_ROOT   absolute path of the scratch tree
 *   SIMOS_PLAN   ';'-separated fault rules (see parse_plan)
 *   SIMOS_TRACE  file to which one line per intercepted operation is appended
 *   SIMOS_CLOCK  "base:step" -- k-th clock read returns base + k*step seconds
 *
 * Rule grammar (fields separated by ':'):
 *   open:<path>:<k>:fail:<errno>          k-th open of path fails
 *   write:<path>:<k>:fail:<errno>         k-th write fails, and every later one (disk stays full)
 *   write:<path>:<k>:failonce:<errno>     k-th write fails once
 *   write:<path>:<k>:short:<n>:<errno>    k-th write transfers min(n,len-1) bytes, later writes fail
 *   write:<path>:<k>:shortok:<n>          k-th write transfers min(n,len-1) bytes, no error (legal short write)
 *   write:<path>:<k>:eintr                k-th write is interrupted once before any byte is transferred
 *   read:<path>:<k>:fail:<errno>          k-th read fails
 *   read:<path>:<k>:eintr                 k-th read is interrupted once
 *   read:<path>:0:chunk:<n>               every read of path returns at most n bytes (legal short reads)
 *   close:<path>:<k>:fail:<errno>         k-th close of path reports an error (the descriptor is closed)
 * <path> is relative to SIMOS_ROOT, or '*' for any path under it.  k counts
 * from 1 per path (for '*': per path as well).
 *
 * No libc allocation, no clock reads, no randomness in here; the trace is
 * written with raw write(2).
 */
#define _GNU_SOURCE
#include <dlfcn.h>
#include <errno.h>
#include <fcntl.h>
#include <stdarg.h>
#include <stdio.h>
#include <stdlib.h>
#include <string.h>
#include <sys/syscall.h>
#include <sys/time.h>
#include <sys/types.h>
#include <sys/uio.h>
#include <time.h>
#include <unistd.h>

#define MAX_RULES 64
#define MAX_PATHS 256
#define MAX_FDS 4096
#define PATH_LEN 512

enum { OP_OPEN, OP_WRITE, OP_READ, OP_CLOSE, OP_N };
enum { A_FAIL, A_FAILONCE, A_SHORT, A_SHORTOK, A_EINTR, A_CHUNK };

struct rule {
  int op, action, k, err;
  long n;
  char path[PATH_LEN];
  int fired;
};

struct pathent {
  char path[PATH_LEN];
  int count[OP_N];
  int sticky_err; /* writes to this path fail with this errno from now on */
  long size_before_last_write; /* file offset before the last successful write, -1 if none */
};

static int g_active = -1;
static char g_root[PATH_LEN];
static size_t g_rootlen;
static struct rule g_rules[MAX_RULES];
static int g_nrules;
static struct pathent g_paths[MAX_PATHS];
static int g_npaths;
static short g_fd2path[MAX_FDS]; /* index+1 into g_paths, 0 = untracked */
static int g_tracefd = -1;
static unsigned long g_seq;
static int g_clock_on;
static long long g_clock_base, g_clock_step, g_clock_n;

static FILE *(*real_fopen)(const char *, const char *);
static FILE *(*real_fopen64)(const char *, const char *);
static int (*real_fclose)(FILE *);
static int (*real_open)(const char *, int, ...);
static int (*real_open64)(const char *, int, ...);
static int (*real_openat)(int, const char *, int, ...);
static int (*real_close)(int);
static ssize_t (*real_write)(int, const void *, size_t);
static ssize_t (*real_writev)(int, const struct iovec *, int);
static ssize_t (*real_read)(int, void *, size_t);
static int (*real_unlink)(const char *);
static time_t (*real_time)(time_t *);
static int (*real_gettimeofday)(struct timeval *, void *);
static int (*real_clock_gettime)(clockid_t, struct timespec *);

static const struct { const char *name; int val; } errtab[] = {
  {"ENOSPC", ENOSPC}, {"EIO", EIO}, {"EDQUOT", EDQUOT}, {"EFBIG", EFBIG},
  {"EACCES", EACCES}, {"EROFS", EROFS}, {"EMFILE", EMFILE}, {"ENOENT", ENOENT},
  {"EISDIR", EISDIR}, {"ELOOP", ELOOP}, {"ENFILE", ENFILE}, {"ENOMEM", ENOMEM},
  {"EINTR", EINTR}, {"EPERM", EPERM}, {"EBADF", EBADF}, {0, 0}
};

static int errno_by_name(const char *s) {
  for (int i = 0; errtab[i].name; i++)
    if (!strcmp(errtab[i].name, s)) return errtab[i].val;
  return atoi(s);
}

static const char *errno_name(int e) {
  static char buf[16];
  if (e == 0) return "0";
  for (int i = 0; errtab[i].name; i++)
    if (errtab[i].val == e) return errtab[i].name;
  snprintf(buf, sizeof buf, "%d", e);
  return buf;
}

static void trace(const char *op, const char *path, long req, long ret, int err, const char *fault) {
  if (g_tracefd < 0) return;
  char line[PATH_LEN + 160];
  int n = snprintf(line, sizeof line, "%lu %s %s %ld %ld %s %s\n", ++g_seq, op,
                   path ? path : "-", req, ret, errno_name(err), fault ? fault : "-");
  if (n > 0) syscall(SYS_write, g_tracefd, line, (size_t)n);
}

static char *next_field(char **p) {
  char *s = *p;
  if (!s) return NULL;
  char *c = strchr(s, ':');
  if (c) { *c = 0; *p = c + 1; } else { *p = NULL; }
  return s;
}

static void parse_plan(const char *plan) {
  static char buf[8192];
  strncpy(buf, plan, sizeof buf - 1);
  char *save = NULL;
  for (char *r = strtok_r(buf, ";", &save); r && g_nrules < MAX_RULES; r = strtok_r(NULL, ";", &save)) {
    struct rule *R = &g_rules[g_nrules];
    memset(R, 0, sizeof *R);
    char *p = r;
    char *op = next_field(&p), *path = next_field(&p), *k = next_field(&p), *act = next_field(&p);
    if (!op || !path || !k || !act) continue;
    if (!strcmp(op, "open")) R->op = OP_OPEN; else if (!strcmp(op, "write")) R->op = OP_WRITE;
    else if (!strcmp(op, "read")) R->op = OP_READ; else if (!strcmp(op, "close")) R->op = OP_CLOSE; else continue;
    strncpy(R->path, path, PATH_LEN - 1);
    R->k = atoi(k);
    char *a1 = next_field(&p), *a2 = next_field(&p);
    if (!strcmp(act, "fail")) { R->action = A_FAIL; R->err = errno_by_name(a1 ? a1 : "EIO"); }
    else if (!strcmp(act, "failonce")) { R->action = A_FAILONCE; R->err = errno_by_name(a1 ? a1 : "EIO"); }
    else if (!strcmp(act, "short")) { R->action = A_SHORT; R->n = a1 ? atol(a1) : 1; R->err = errno_by_name(a2 ? a2 : "ENOSPC"); }
    else if (!strcmp(act, "shortok")) { R->action = A_SHORTOK; R->n = a1 ? atol(a1) : 1; }
    else if (!strcmp(act, "eintr")) { R->action = A_EINTR; R->err = EINTR; }
    else if (!strcmp(act, "chunk")) { R->action = A_CHUNK; R->n = a1 ? atol(a1) : 1; }
    else continue;
    g_nrules++;
  }
}

static void init(void) {
  if (g_active >= 0) return;
  g_active = 0;
  real_fopen = dlsym(RTLD_NEXT, "fopen");
  real_fopen64 = dlsym(RTLD_NEXT, "fopen64");
  real_fclose = dlsym(RTLD_NEXT, "fclose");
  real_open = dlsym(RTLD_NEXT, "open");
  real_open64 = dlsym(RTLD_NEXT, "open64");
  real_openat = dlsym(RTLD_NEXT, "openat");
  real_close = dlsym(RTLD_NEXT, "close");
  real_write = dlsym(RTLD_NEXT, "write");
  real_writev = dlsym(RTLD_NEXT, "writev");
  real_read = dlsym(RTLD_NEXT, "read");
  real_unlink = dlsym(RTLD_NEXT, "unlink");
  real_time = dlsym(RTLD_NEXT, "time");
  real_gettimeofday = dlsym(RTLD_NEXT, "gettimeofday");
  real_clock_gettime = dlsym(RTLD_NEXT, "clock_gettime");
  const char *root = getenv("SIMOS_ROOT");
  if (!root || root[0] != '/') return;
  strncpy(g_root, root, PATH_LEN - 2);
  g_rootlen = strlen(g_root);
  while (g_rootlen > 1 && g_root[g_rootlen - 1] == '/') g_root[--g_rootlen] = 0;
  const char *tr = getenv("SIMOS_TRACE");
  if (tr && tr[0]) g_tracefd = (int)syscall(SYS_openat, AT_FDCWD, tr, O_WRONLY | O_CREAT | O_APPEND | O_CLOEXEC, 0644);
  const char *plan = getenv("SIMOS_PLAN");
  if (plan) parse_plan(plan);
  const char *clk = getenv("SIMOS_CLOCK");
  if (clk && clk[0]) {
    g_clock_on = 1;
    g_clock_base = atoll(clk);
    const char *c = strchr(clk, ':');
    g_clock_step = c ? atoll(c + 1) : 1;
  }
  g_active = 1;
}

/* Re-configures the shim inside a long-lived process (the dbsim worker forks one
 * child per history and the child calls this before touching any file). */
void simos_reset(const char *root, const char *plan, const char *trace, const char *clk) {
  init();
  memset(g_rules, 0, sizeof g_rules); g_nrules = 0;
  memset(g_paths, 0, sizeof g_paths); g_npaths = 0;
  memset(g_fd2path, 0, sizeof g_fd2path);
  g_seq = 0; g_clock_on = 0; g_clock_n = 0;
  if (g_tracefd >= 0) { syscall(SYS_close, g_tracefd); g_tracefd = -1; }
  g_active = 0;
  if (!root || root[0] != '/') return;
  strncpy(g_root, root, PATH_LEN - 2);
  g_rootlen = strlen(g_root);
  while (g_rootlen > 1 && g_root[g_rootlen - 1] == '/') g_root[--g_rootlen] = 0;
  if (trace && trace[0]) g_tracefd = (int)syscall(SYS_openat, AT_FDCWD, trace, O_WRONLY | O_CREAT | O_APPEND | O_CLOEXEC, 0644);
  if (plan && plan[0]) parse_plan(plan);
  if (clk && clk[0]) {
    g_clock_on = 1;
    g_clock_base = atoll(clk);
    const char *c = strchr(clk, ':');
    g_clock_step = c ? atoll(c + 1) : 1;
  }
  g_active = 1;
}

/* Lexically normalises path (absolute, no . or .. or //) into out. */
static int normalise(const char *path, char *out, size_t outlen) {
  char tmp[PATH_LEN * 2];
  if (path[0] != '/') {
    if (!getcwd(tmp, PATH_LEN)) return -1;
    size_t l = strlen(tmp);
    if (l + 1 + strlen(path) + 1 > sizeof tmp) return -1;
    tmp[l] = '/';
    strcpy(tmp + l + 1, path);
  } else {
    if (strlen(path) + 1 > sizeof tmp) return -1;
    strcpy(tmp, path);
  }
  size_t o = 0;
  const char *p = tmp;
  while (*p) {
    while (*p == '/') p++;
    if (!*p) break;
    const char *e = p;
    while (*e && *e != '/') e++;
    size_t l = (size_t)(e - p);
    if (l == 1 && p[0] == '.') { /* skip */ }
    else if (l == 2 && p[0] == '.' && p[1] == '.') {
      while (o > 0 && out[o - 1] != '/') o--;
      if (o > 0) o--;
    } else {
      if (o + 1 + l + 1 > outlen) return -1;
      out[o++] = '/';
      memcpy(out + o, p, l);
      o += l;
    }
    p = e;
  }
  if (o == 0) out[o++] = '/';
  out[o] = 0;
  return 0;
}

/* Returns the index of the path entry when path lies under the root, else -1. */
static int classify(const char *path) {
  if (g_active != 1 || !path) return -1;
  char norm[PATH_LEN * 2];
  if (normalise(path, norm, sizeof norm) != 0) return -1;
  if (strncmp(norm, g_root, g_rootlen) != 0 || norm[g_rootlen] != '/') return -1;
  const char *rel = norm + g_rootlen + 1;
  if (strlen(rel) >= PATH_LEN) return -1;
  for (int i = 0; i < g_npaths; i++)
    if (!strcmp(g_paths[i].path, rel)) return i;
  if (g_npaths >= MAX_PATHS) return -1;
  strcpy(g_paths[g_npaths].path, rel);
  g_paths[g_npaths].size_before_last_write = -1;
  return g_npaths++;
}

/* A rule path is an exact relative path, "*" (any path), or "prefix*". */
static int path_matches(const char *pat, const char *path) {
  size_t n = strlen(pat);
  if (n > 0 && pat[n - 1] == '*') return strncmp(pat, path, n - 1) == 0;
  return strcmp(pat, path) == 0;
}

static struct rule *match(int op, int pi, int k) {
  for (int i = 0; i < g_nrules; i++) {
    struct rule *R = &g_rules[i];
    if (R->op != op) continue;
    if (R->action == A_CHUNK) { if (path_matches(R->path, g_paths[pi].path)) return R; continue; }
    if (R->k != k) continue;
    if (path_matches(R->path, g_paths[pi].path)) return R;
  }
  return NULL;
}

static void track(int fd, int pi) {
  if (fd >= 0 && fd < MAX_FDS) g_fd2path[fd] = (short)(pi + 1);
}

static int tracked(int fd) {
  if (g_active != 1 || fd < 0 || fd >= MAX_FDS) return -1;
  return g_fd2path[fd] - 1;
}

/* ---- open ---- */

static int pre_open(const char *path, const char *what, int *pi_out) {
  int pi = classify(path);
  *pi_out = pi;
  if (pi < 0) return 0;
  int k = ++g_paths[pi].count[OP_OPEN];
  struct rule *R = match(OP_OPEN, pi, k);
  if (R && (R->action == A_FAIL || R->action == A_FAILONCE)) {
    R->fired++;
    trace(what, g_paths[pi].path, k, -1, R->err, "open-fail");
    errno = R->err;
    return -1;
  }
  return 0;
}

/* The output phase of the process begins with the first attempt to open a file under the scratch root for writing.
 * The allocator shim, if it is loaded too, can be told to inject its faults only from then on (simheap_arm). */
static void output_phase_begins(void) {
  static int done;
  if (done) return;
  done = 1;
  void (*arm)(void) = (void (*)(void))dlsym(RTLD_DEFAULT, "simheap_arm");
  if (arm) arm();
}

static FILE *do_fopen(FILE *(*fn)(const char *, const char *), const char *path, const char *mode) {
  int pi;
  if (pre_open(path, "open", &pi) < 0) return NULL;
  if (pi >= 0 && mode && (strchr(mode, 'w') || strchr(mode, 'a') || strchr(mode, '+'))) output_phase_begins();
  FILE *f = fn(path, mode);
  if (pi >= 0) {
    int e = errno;
    if (f) track(fileno(f), pi);
    trace("open", g_paths[pi].path, g_paths[pi].count[OP_OPEN], f ? fileno(f) : -1, f ? 0 : e, mode);
    errno = e;
  }
  return f;
}

FILE *fopen(const char *path, const char *mode) { init(); return do_fopen(real_fopen, path, mode); }
FILE *fopen64(const char *path, const char *mode) { init(); return do_fopen(real_fopen64 ? real_fopen64 : real_fopen, path, mode); }

static int do_open(int which, int dirfd, const char *path, int flags, mode_t mode) {
  int pi = -1;
  if (which != 2 || dirfd == AT_FDCWD || (path && path[0] == '/')) {
    if (pre_open(path, "open", &pi) < 0) return -1;
  }
  if (pi >= 0 && (flags & (O_WRONLY | O_RDWR))) output_phase_begins();
  int fd;
  if (which == 0) fd = real_open(path, flags, mode);
  else if (which == 1) fd = (real_open64 ? real_open64 : real_open)(path, flags, mode);
  else fd = real_openat(dirfd, path, flags, mode);
  if (pi >= 0) {
    int e = errno;
    if (fd >= 0) track(fd, pi);
    trace("open", g_paths[pi].path, g_paths[pi].count[OP_OPEN], fd, fd >= 0 ? 0 : e, "fd");
    errno = e;
  }
  return fd;
}

int open(const char *path, int flags, ...) {
  init();
  mode_t mode = 0;
  if (flags & (O_CREAT | O_TMPFILE)) { va_list ap; va_start(ap, flags); mode = va_arg(ap, mode_t); va_end(ap); }
  return do_open(0, 0, path, flags, mode);
}
int open64(const char *path, int flags, ...) {
  init();
  mode_t mode = 0;
  if (flags & (O_CREAT | O_TMPFILE)) { va_list ap; va_start(ap, flags); mode = va_arg(ap, mode_t); va_end(ap); }
  return do_open(1, 0, path, flags, mode);
}
int openat(int dirfd, const char *path, int flags, ...) {
  init();
  mode_t mode = 0;
  if (flags & (O_CREAT | O_TMPFILE)) { va_list ap; va_start(ap, flags); mode = va_arg(ap, mode_t); va_end(ap); }
  return do_open(2, dirfd, path, flags, mode);
}

/* ---- close ---- */

static int close_fault(int pi, int fd, int *err) {
  int k = ++g_paths[pi].count[OP_CLOSE];
  struct rule *R = match(OP_CLOSE, pi, k);
  if (R && (R->action == A_FAIL || R->action == A_FAILONCE)) {
    R->fired++;
    *err = R->err;
    /* close(2) reporting an error means delayed data could not be stored: the last write is lost */
    if (g_paths[pi].size_before_last_write >= 0) {
      if (ftruncate(fd, (off_t)g_paths[pi].size_before_last_write) != 0) { /* ignore */ }
    }
    return 1;
  }
  return 0;
}

int fclose(FILE *f) {
  init();
  int fd = f ? fileno(f) : -1;
  int pi = tracked(fd);
  if (pi < 0) return real_fclose(f);
  g_fd2path[fd] = 0;
  if (f) fflush(f);
  int err = 0, fault = close_fault(pi, fd, &err);
  int r = real_fclose(f);
  int e = errno;
  if (fault) { r = EOF; e = err; }
  trace("close", g_paths[pi].path, g_paths[pi].count[OP_CLOSE], r, r ? e : 0, fault ? "close-fail" : "-");
  errno = e;
  return r;
}

int close(int fd) {
  init();
  int pi = tracked(fd);
  if (pi < 0) return real_close(fd);
  g_fd2path[fd] = 0;
  int err = 0, fault = close_fault(pi, fd, &err);
  int r = real_close(fd);
  int e = errno;
  if (fault) { r = -1; e = err; }
  trace("close", g_paths[pi].path, g_paths[pi].count[OP_CLOSE], r, r ? e : 0, fault ? "close-fail" : "-");
  errno = e;
  return r;
}

/* ---- write ---- */

/* Decides the fate of the k-th write of `len` bytes on path pi.
 * Returns: -1 -> fail with *err; otherwise number of bytes to really transfer
 * (== len for no fault).  *after_err is set when later writes must fail. */
static long write_fate(int pi, size_t len, int *err, const char **tag) {
  struct pathent *P = &g_paths[pi];
  int k = ++P->count[OP_WRITE];
  *tag = "-";
  if (P->sticky_err) { *err = P->sticky_err; *tag = "write-fail-sticky"; return -1; }
  struct rule *R = match(OP_WRITE, pi, k);
  if (!R) return (long)len;
  switch (R->action) {
  case A_FAIL: R->fired++; P->sticky_err = R->err; *err = R->err; *tag = "write-fail"; return -1;
  case A_FAILONCE: R->fired++; *err = R->err; *tag = "write-failonce"; return -1;
  case A_EINTR: R->fired++; *err = EINTR; *tag = "write-eintr"; return -1;
  case A_SHORT:
  case A_SHORTOK: {
    if (len <= 1) {
      /* nothing shorter than the request can be transferred */
      if (R->action == A_SHORT) { R->fired++; P->sticky_err = R->err; *err = R->err; *tag = "write-fail"; return -1; }
      return (long)len;
    }
    long n = R->n < 1 ? 1 : R->n;
    if ((size_t)n > len - 1) n = (long)len - 1;
    R->fired++;
    if (R->action == A_SHORT) { P->sticky_err = R->err; *tag = "write-short-then-fail"; }
    else *tag = "write-shortok";
    return n;
  }
  default: return (long)len;
  }
}

ssize_t write(int fd, const void *buf, size_t len) {
  init();
  int pi = tracked(fd);
  if (pi < 0) return real_write(fd, buf, len);
  int err = 0; const char *tag;
  long n = write_fate(pi, len, &err, &tag);
  if (n < 0) { trace("write", g_paths[pi].path, (long)len, -1, err, tag); errno = err; return -1; }
  long before = (long)lseek(fd, 0, SEEK_CUR);
  ssize_t r = real_write(fd, buf, (size_t)n);
  int e = errno;
  if (r > 0 && before >= 0) g_paths[pi].size_before_last_write = before;
  trace("write", g_paths[pi].path, (long)len, r, r < 0 ? e : 0, tag);
  errno = e;
  return r;
}

ssize_t writev(int fd, const struct iovec *iov, int cnt) {
  init();
  int pi = tracked(fd);
  if (pi < 0) return real_writev(fd, iov, cnt);
  size_t len = 0;
  for (int i = 0; i < cnt; i++) len += iov[i].iov_len;
  int err = 0; const char *tag;
  long n = write_fate(pi, len, &err, &tag);
  if (n < 0) { trace("writev", g_paths[pi].path, (long)len, -1, err, tag); errno = err; return -1; }
  ssize_t r;
  long before = (long)lseek(fd, 0, SEEK_CUR);
  if ((size_t)n == len) {
    r = real_writev(fd, iov, cnt);
  } else {
    /* transfer exactly the first n bytes */
    r = 0;
    long left = n;
    for (int i = 0; i < cnt && left > 0; i++) {
      size_t l = iov[i].iov_len < (size_t)left ? iov[i].iov_len : (size_t)left;
      ssize_t w = real_write(fd, iov[i].iov_base, l);
      if (w < 0) { if (r == 0) r = -1; break; }
      r += w; left -= w;
      if ((size_t)w < l) break;
    }
  }
  int e = errno;
  if (r > 0 && before >= 0) g_paths[pi].size_before_last_write = before;
  trace("writev", g_paths[pi].path, (long)len, r, r < 0 ? e : 0, tag);
  errno = e;
  return r;
}

/* ---- read ---- */

ssize_t read(int fd, void *buf, size_t len) {
  init();
  int pi = tracked(fd);
  if (pi < 0) return real_read(fd, buf, len);
  struct pathent *P = &g_paths[pi];
  int k = ++P->count[OP_READ];
  const char *tag = "-";
  struct rule *R = NULL;
  /* a positional rule takes precedence over the chunk rule */
  for (int i = 0; i < g_nrules; i++) {
    struct rule *Q = &g_rules[i];
    if (Q->op != OP_READ || Q->action == A_CHUNK || Q->k != k) continue;
    if (path_matches(Q->path, P->path)) { R = Q; break; }
  }
  if (R && (R->action == A_FAIL || R->action == A_FAILONCE || R->action == A_EINTR)) {
    R->fired++;
    trace("read", P->path, (long)len, -1, R->err, R->action == A_EINTR ? "read-eintr" : "read-fail");
    errno = R->err;
    return -1;
  }
  size_t want = len;
  for (int i = 0; i < g_nrules; i++) {
    struct rule *Q = &g_rules[i];
    if (Q->op == OP_READ && Q->action == A_CHUNK && path_matches(Q->path, P->path)) {
      if (Q->n >= 1 && (size_t)Q->n < want) { want = (size_t)Q->n; Q->fired++; tag = "read-chunk"; }
      break;
    }
  }
  ssize_t r = real_read(fd, buf, want);
  int e = errno;
  trace("read", P->path, (long)len, r, r < 0 ? e : 0, tag);
  errno = e;
  return r;
}

/* ---- unlink (traced only) ---- */

int unlink(const char *path) {
  init();
  int pi = classify(path);
  int r = real_unlink(path);
  if (pi >= 0) { int e = errno; trace("unlink", g_paths[pi].path, 0, r, r ? e : 0, "-"); errno = e; }
  return r;
}

/* ---- clock ---- */

static long long clock_next(void) { return g_clock_base + (g_clock_n++) * g_clock_step; }

time_t time(time_t *t) {
  init();
  if (g_active != 1 || !g_clock_on) return real_time(t);
  long long v = clock_next();
  trace("time", "-", 0, (long)v, 0, "clock");
  if (t) *t = (time_t)v;
  return (time_t)v;
}

int gettimeofday(struct timeval *tv, void *tz) {
  init();
  if (g_active != 1 || !g_clock_on) return real_gettimeofday(tv, tz);
  long long v = clock_next();
  trace("gettimeofday", "-", 0, (long)v, 0, "clock");
  if (tv) { tv->tv_sec = (time_t)v; tv->tv_usec = 0; }
  return 0;
}

int clock_gettime(clockid_t id, struct timespec *ts) {
  init();
  if (g_active != 1 || !g_clock_on || id != CLOCK_REALTIME) return real_clock_gettime(id, ts);
  long long v = clock_next();
  trace("clock_gettime", "-", 0, (long)v, 0, "clock");
  if (ts) { ts->tv_sec = (time_t)v; ts->tv_nsec = 0; }
  return 0;
}

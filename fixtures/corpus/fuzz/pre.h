#define PUBLISHED __published
#define MAKE_PROPERTY __make_property
#define MAKE_PROPERTY2 __make_property2
#define MAKE_SEQ __make_seq
#define MAKE_SEQ_PROPERTY __make_seq_property
#define MAKE_MAP_PROPERTY __make_map_property
#define MAKE_MAP_KEYS_SEQ __make_map_keys_seq
#define BEGIN_PUBLISH __begin_publish
#define END_PUBLISH __end_publish
#define EXTENSION(x) __extension x
#define BLOCKING __blocking
struct _object; typedef _object PyObject;
struct bufferinfo; typedef bufferinfo Py_buffer;
typedef int (*visitproc)(PyObject *, void *);
struct _typeobject; typedef _typeobject PyTypeObject;

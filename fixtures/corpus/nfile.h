class NThing {
__published:
  NThing();
  int get() const;
  void set(int v);
};
class NIgnored {
__published:
  int hidden() const;
};
template<class T> class NTmpl { __published: T get() const; };

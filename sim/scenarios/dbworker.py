"""dbsim worker: a warm process with libinterrogatedb.so (and the helper, and
the SimOS shim) mapped, which forks one child per simulated history.  The
database is a process-global singleton with no reset, so every history gets a
fresh process image; crashes, sanitizer aborts and runaway recursion stay
contained in the child.

Protocol (stdin/stdout, one JSON object per line):
  -> {"plan": {...}}      <- {"result": {...}}
"""
import ctypes
import json
import os
import select
import shutil
import signal
import sys
import time

HERE = os.path.dirname(os.path.abspath(__file__))
sys.path.insert(0, os.path.dirname(os.path.dirname(HERE)))

from sim.core.rng import Rng  # noqa: E402
from sim.model import capi, idb_format as F, idb_gen, idb_model  # noqa: E402

EXTREMES = [-(2 ** 31), -(2 ** 31) + 1, -1000003, 2 ** 31 - 2, 2 ** 31 - 1, 1 << 20]


class World:
    def __init__(self, libdb, helper, repo, simos):
        self.api = capi.Api(libdb, [os.path.join(repo, "src/interrogatedb/interrogate_interface.h"),
                                    os.path.join(repo, "src/interrogatedb/interrogate_request.h")])
        self.helper = ctypes.CDLL(helper)
        self.helper.dbhelper_write.argtypes = [ctypes.c_char_p, ctypes.c_int, ctypes.c_char_p, ctypes.c_char_p, ctypes.c_char_p]
        self.simos = None
        if simos:
            self.simos = ctypes.CDLL(simos)
            self.simos.simos_reset.argtypes = [ctypes.c_char_p] * 4
            self.simos.simos_reset.restype = None


# ---------------------------------------------------------------- universe

def build_universe(u, real_dir):
    """Returns [parsed db] for a universe spec."""
    if "real" in u:
        out = []
        for name in u["real"]:
            with open(os.path.join(real_dir, name), "rb") as f:
                out.append(F.parse(f.read()))
        return out
    rng = Rng(u["seed"])
    dbs = idb_gen.gen_universe(rng, u["k"], size=u.get("size", 4), shared=u.get("shared", 3), minor_choices=tuple(u.get("minors", [3])))
    if u.get("alt"):
        for db in dbs:
            idb_gen.with_alt_names(rng, db)
    return dbs


def damage(data, fault):
    k = fault["kind"]
    if k == "torn":
        return data[:fault["off"] % (len(data) + 1) if fault.get("mod") else fault["off"]]
    if k == "header":
        first, _, rest = data.partition(b"\n")
        second, _, rest2 = rest.partition(b"\n")
        return first + b"\n" + fault["text"].encode() + b"\n" + rest2
    if k == "ident-line":
        first, _, rest = data.partition(b"\n")
        return fault["text"].encode() + b"\n" + rest
    if k == "badnum":
        # one number replaced (wrong sign, a length far beyond the file, ...); whether the result still loads is not predicted
        import re
        toks = list(re.finditer(rb"(?<![\w.])-?\d+(?![\w.])", data))
        t = toks[fault["which"] % len(toks)]
        return data[:t.start()] + str(fault["value"]).encode() + data[t.end():]
    return data


# index-valued per-type lists: a 0 at a counted position is an entry the accessor does not actually return
PHANTOM_LISTS = ("interrogate_type_get_constructor", "interrogate_type_get_element", "interrogate_type_get_method", "interrogate_type_get_make_seq",
                 "interrogate_type_get_cast", "interrogate_type_get_nested_type", "interrogate_type_get_derivation",
                 "interrogate_function_c_wrapper", "interrogate_function_python_wrapper")


class History:
    """Executes one plan against the real library and judges every step."""

    def __init__(self, W, plan, root, real_dir):
        self.W, self.api, self.plan, self.root = W, W.api, plan, root
        self.viol = []
        self.stats = {"ops": 0, "api_calls": 0, "merges": 0, "ambiguous_merges": 0, "lazy_batches": [], "failed_loads": 0,
                      "probes": 0, "lookups": 0, "uniq_lookups": 0, "verified_entities": 0, "faults_fired": {}}
        self.dbs = build_universe(plan["universe"], real_dir)
        self.real_paths = [os.path.join(real_dir, n) for n in plan["universe"].get("real", [])]
        self.bytes = []
        self.paths = []
        self.faults = {int(k): v for k, v in plan.get("faults", {}).items()}
        rules = []
        for li, db in enumerate(self.dbs):
            data = F.serialise(db)
            f = self.faults.get(li)
            p = os.path.join(root, "lib%d.in" % li)
            self.bytes.append(data)
            if f is None or f["kind"] in ("ident", "stale", "read", "chunk"):
                with open(p, "wb") as fh:
                    fh.write(data)
                if f and f["kind"] == "read":
                    rules.append("read:lib%d.in:%d:fail:%s" % (li, f["k"], f.get("err", "EIO")))
                if f and f["kind"] == "chunk":
                    rules.append("read:lib%d.in:0:chunk:%d" % (li, f["n"]))
            elif f["kind"] == "missing":
                pass
            elif f["kind"] == "isdir":
                os.makedirs(p)
            else:
                with open(p, "wb") as fh:
                    fh.write(damage(data, f))
            self.paths.append(p)
        self.trace_path = root + ".trace"
        if W.simos:
            W.simos.simos_reset(root.encode(), ";".join(rules).encode(), self.trace_path.encode(), b"")
        # expected fate of each library's file
        self.fate = []
        for li, db in enumerate(self.dbs):
            f = self.faults.get(li)
            if f is None or f["kind"] == "chunk":
                self.fate.append("ok")
            elif f["kind"] in ("torn", "header", "ident-line"):
                try:
                    same = F.parse(damage(self.bytes[li], f)) == db
                except F.FormatError:
                    same = False
                self.fate.append("ok" if same else "fail")
            elif f["kind"] == "ident":
                self.fate.append("ident")          # flag set; content fully present or fully absent
            elif f["kind"] == "read":
                self.fate.append("read")           # decided by whether the fault fired
            else:
                self.fate.append("fail")
        self.pending = []          # lib indices registered, not yet loaded
        self.loaded = []           # lib indices whose content is expected to be visible, in load order
        self.maybe = []            # lib indices whose content may be fully present or fully absent
        self.failed_any = False
        self.flag_must = False
        self.defs = {}             # lib index -> ModuleDef (kept alive)
        self.keep = []
        self.searchdir = bool(plan.get("relative"))      # register by bare file name; a search_dir/search_path op makes it findable
        self.findable = not self.searchdir               # False until such an op has run: a load attempted before that finds no file

    # ------------------------------------------------------------ helpers
    def v(self, prop, cls, key, msg):
        self.viol.append({"property": prop, "class": cls, "key": key, "msg": msg[:600]})

    def call(self, name, *args):
        self.stats["api_calls"] += 1
        return getattr(self.api, name)(*args)

    def settle(self):
        """A database query has happened: every pending request has been processed."""
        if not self.pending:
            return
        self.stats["lazy_batches"].append(len(self.pending))
        fired = self._fired()
        for li in self.pending:
            fate = self.fate[li]
            if not self.findable:
                fate = "fail"
            if fate == "read":
                fate = "fail" if fired.get("lib%d.in" % li) else "ok"
            if fate == "ok":
                self.loaded.append(li)
            elif fate == "ident":
                self.maybe.append(li)
                self.failed_any = True
                self.stats["failed_loads"] += 1
            else:
                self.failed_any = True
                self.stats["failed_loads"] += 1
        self.pending = []

    def _fired(self):
        out = {}
        try:
            with open(self.trace_path) as f:
                for line in f:
                    p = line.split(" ", 6)
                    if len(p) == 7 and p[6].strip() in ("read-fail", "open-fail"):
                        out[p[2]] = out.get(p[2], 0) + 1
                        k = p[6].strip()
                        self.stats["faults_fired"][k] = self.stats["faults_fired"].get(k, 0) + 1
        except OSError:
            pass
        return out

    def check_flag(self, where):
        flag = bool(self.call("interrogate_error_flag"))
        # loading is lazy, but asking for the error flag is a query like any other: "a truncated file ... is reported
        # through the error flag" holds at the moment the client asks, not only after some unrelated query
        self.settle()
        if flag != self.failed_any:
            prop = "C12" if len(self.dbs) == 1 else "C13"
            self.v(prop, "error-flag", {"op": "error_flag", "expected": self.failed_any},
                   "%s: error flag is %s but %s (faults %s)" % (where, flag, "a load failed" if self.failed_any else "no load has failed", self.faults))

    # ------------------------------------------------------------ registration
    def reg_db(self, li):
        name = self.paths[li] if not self.searchdir else os.path.basename(self.paths[li])
        self.call("interrogate_request_database", name.encode())
        self.pending.append(li)

    def reg_mod(self, li, op):
        db = self.dbs[li]
        d = capi.ModuleDef()
        total = sum(len(db[s]) for s in F.SECTIONS)
        f = self.faults.get(li)
        d.file_identifier = db["file_identifier"] if op.get("ident", "match") == "match" else 0
        if f and f["kind"] == "ident":
            d.file_identifier = db["file_identifier"] + 1 + f.get("delta", 0)
        name = self.paths[li] if not self.searchdir else os.path.basename(self.paths[li])
        d.database_filename = name.encode()
        d.library_name = db["library_name"] if op.get("libname", True) else None
        d.library_hash_name = op["hash"].encode() if op.get("hash") else db["library_hash_name"]
        d.module_name = db["module_name"]
        if op.get("range", True) == "generated":
            # exactly what the generated code registers
            with open(self.real_paths[li] + ".range") as fh:
                a, b = fh.read().split()
            d.first_index, d.next_index = int(a), int(b)
        elif op.get("range", True):
            d.first_index = 1
            d.next_index = 1 + total + (f.get("delta", 1) if f and f["kind"] == "stale" else 0)
        nw = len(db["wrappers"])
        uniq = op.get("uniq")
        if uniq is not None:
            # the first `uniq` wrappers' unique names (minus the library hash), sorted as the contract requires
            ws = sorted(db["wrappers"])[:uniq]
            ent = {}
            for w in ws:      # the contract: names sorted and distinct
                ent.setdefault(db["wrappers"][w]["unique_name"][4:], w - 1)
            ent = sorted(ent.items())
            arr = (capi.UniqueNameDef * max(1, len(ent)))()
            for i, (nm, off) in enumerate(ent):
                arr[i].name = nm
                arr[i].index_offset = off
            d.unique_names = arr
            d.num_unique_names = len(ent)
            self.keep.append(arr)
        nf = op.get("fptrs")
        if nf is not None:
            n = max(0, nw + nf)
            arr = (ctypes.c_void_p * max(1, n))()
            for i in range(n):
                arr[i] = 0x1000 + i * 16
            d.fptrs = arr
            d.num_fptrs = n
            self.keep.append(arr)
        self.defs[li] = d
        # the key the module is filed under; loading the file later overwrites the definition's own copy with the file's
        self.reg_hash = getattr(self, "reg_hash", {})
        self.reg_hash[li] = d.library_hash_name if (d.num_unique_names > 0 and d.library_name is not None) else None
        self.call("interrogate_request_module", ctypes.byref(d))
        self.pending.append(li)

    # ------------------------------------------------------------ verification
    def dump(self):
        p = os.path.join(os.path.dirname(self.root), os.path.basename(self.root) + ".dump")
        self.W.helper.dbhelper_write(p.encode(), 424242, b"DUMP", b"dump", b"dumpmod")
        with open(p, "rb") as f:
            data = f.read()
        os.unlink(p)
        return data

    def verify(self, sweep=True, lookups=True, dump_first=False):
        prop = "C12" if len(self.dbs) == 1 else "C13"
        if dump_first:
            # InterrogateDatabase::write as the very first observation after the requests: it must see them like any query
            raw = self.dump()
            self.settle()
            self.check_flag("verify")
        else:
            n = self.call("interrogate_number_of_types")          # a query: forces the lazy load
            self.settle()
            self.check_flag("verify")
            raw = self.dump()
        try:
            real = F.parse(raw)
        except F.FormatError as e:
            self.v(prop, "dump-unparsable", {"op": "write", "kind": "unparsable"}, "the loaded database re-serialises to bytes the independent reader rejects: %s" % e)
            return
        owners = {}
        for i in real["functions"]:
            owners[("functions", i)] = (self.call("interrogate_function_library_name", i) or b"", self.call("interrogate_function_module_name", i) or b"")
        for i in real["types"]:
            owners[("types", i)] = (self.call("interrogate_type_library_name", i) or b"", self.call("interrogate_type_module_name", i) or b"")
        rc = idb_model.from_dump(real, owners)
        rcol = idb_model.colours(rc)
        # the model: loaded libraries, plus any subset of the "maybe" ones (fully present or fully absent)
        by_true = {}
        for i, t in real["types"].items():
            if t["true_name"]:
                by_true.setdefault(t["true_name"], []).append(i)

        cur_order = []

        def choose(tn, cands):
            # Equally qualified candidates: the property allows any of them, so follow the real database's choice --
            # as long as the merged node is one of the candidates in its entirety (content and owning library).
            ridx = by_true.get(tn, [])
            if len(ridx) != 1:
                return 0
            rs = idb_model._scalars("types", real["types"][ridx[0]])
            rs_ng = tuple((k, (v & ~1) if k == "flags" else v) for k, v in rs)
            rown = owners.get(("types", ridx[0]))
            fallback = None
            for ci, (pos, rec) in enumerate(cands):
                cs = tuple((k, (v & ~1) if k == "flags" else v) for k, v in idb_model._scalars("types", rec))
                if cs == rs_ng:
                    lib = self.dbs[cur_order[pos]]
                    if rown == (lib["library_name"], lib["module_name"]):
                        return ci
                    if fallback is None:
                        fallback = ci
            return fallback if fallback is not None else 0
        best = None
        subsets = [[]]
        for m in self.maybe:
            subsets = subsets + [s + [m] for s in subsets]
        for extra in subsets:
            order = [li for li in range(len(self.dbs)) if li in self.loaded or li in extra]
            cur_order[:] = order
            mc, info = idb_model.combine([(li, self.dbs[li]) for li in order], choose)
            mcol = idb_model.colours(mc)
            da, db_ = idb_model.diff_multisets(idb_model.multiset(mcol), idb_model.multiset(rcol))
            if not da and not db_:
                best = (mc, mcol, info, order)
                break
            if best is None:
                best = (mc, mcol, info, order, da, db_)
        mc, mcol, info, order = best[:4]
        self.stats["merges"] += sum(1 for x in info.values())
        self.stats["ambiguous_merges"] += sum(1 for x in info.values() if x["ambiguous"])
        self.stats["verified_entities"] += len(rcol)
        if len(best) > 4:
            da, db_ = best[4], best[5]
            inv_m = {}
            for key, c in mcol.items():
                inv_m.setdefault(c, []).append(key)
            inv_r = {}
            for key, c in rcol.items():
                inv_r.setdefault(c, []).append(key)
            miss = [(k, mc.recs[k][i]["name"][:40]) for c in da for (k, i) in inv_m[c]][:4]
            extra_ = [(k, i, rc.recs[k][i]["name"][:40]) for c in db_ for (k, i) in inv_r[c]][:4]
            kinds = sorted(set(k for c in da for (k, i) in inv_m[c]) | set(k for c in db_ for (k, i) in inv_r[c]))
            # refine the class: which field differs for a same-named record?
            detail = self._explain(mc, rc, da, db_, inv_m, inv_r)
            self.v(prop, "merged-db-differs", {"op": "load+merge", "field": detail[0]},
                   "after loading libraries %s (faults %s) the database differs from the reference model: %s; model-only %s; real-only %s" %
                   (order, self.faults, detail[1], miss, extra_))
        # enumerations
        self._check_enums(prop, real, rc, rcol, mc, mcol)
        if lookups:
            self._check_lookups(real, rc, rcol, mc, mcol)
        self._check_ranges(prop, real, owners)
        self._check_fptr_boundaries(prop)
        if sweep:
            self._sweep(real)
        return real, raw

    def _explain(self, mc, rc, da, db_, inv_m, inv_r):
        """Pairs a model-only and a real-only entity with equal name and names the first differing field.
        Differences in a record's own content are preferred over differences in its neighbourhood (which are usually their consequence)."""
        pairs = []
        for c in da:
            for (k, i) in inv_m[c]:
                for c2 in db_:
                    for (k2, i2) in inv_r[c2]:
                        if k2 == k and rc.recs[k][i2]["name"] == mc.recs[k][i]["name"]:
                            same_tag = all(rc.recs[k][i2].get(f) == mc.recs[k][i].get(f) for f in ("scoped_name", "true_name", "unique_name") if f in mc.recs[k][i])
                            pairs.append((0 if same_tag else 1, k, i, i2))
        pairs = [p[1:] for p in sorted(pairs)]
        for k, i, i2 in pairs:
            mrec, rrec = mc.recs[k][i], rc.recs[k][i2]
            ms, rs = dict(idb_model._scalars(k, mrec)), dict(idb_model._scalars(k, rrec))
            for f in sorted(ms):
                if ms[f] != rs.get(f):
                    return (k + "." + f, "%s %r: field %s is %r in the model, %r in the real database" % (k, mrec["name"][:30], f, _short(ms[f]), _short(rs.get(f))))
            if mc.owner.get((k, i)) != rc.owner.get((k, i2)) and k in ("functions", "types"):
                return (k + ".owner", "%s %r: owner is %r in the model, %r in the real database" % (k, mrec["name"][:30], mc.owner.get((k, i)), rc.owner.get((k, i2))))
        for k, i, i2 in pairs:
            mrec, rrec = mc.recs[k][i], rc.recs[k][i2]
            mr = list(idb_model._refs(k, mrec))
            rr = list(idb_model._refs(k, rrec))
            if len(mr) != len(rr):
                return (k + ".refs", "%s %r: %d references in the model, %d in the real database" % (k, mrec["name"][:30], len(mr), len(rr)))
            for (l1, v1), (l2, v2) in zip(mr, rr):
                t1 = mc.kind_of(v1)
                t2 = rc.kind_of(v2)
                n1 = mc.recs[t1][v1]["name"] if t1 else None
                n2 = rc.recs[t2][v2]["name"] if t2 else None
                if (t1, n1) != (t2, n2):
                    return (k + "." + l1.split("[")[0], "%s %r: reference %s points to %s %r in the model, %s %r in the real database" % (k, mrec["name"][:30], l1, t1, _short(n1), t2, _short(n2)))
        if pairs:
            k, i, i2 = pairs[0]
            return (k + ".neighbourhood", "%s %r: same content and same direct references, different neighbourhood" % (k, mc.recs[k][i]["name"][:30]))
        return ("membership", "entity sets differ")

    def _check_enums(self, prop, real, rc, rcol, mc, mcol):
        for cnt, (acc, kind, which) in sorted(capi.ENUMS.items()):
            n = self.call(cnt)
            got = [self.call(acc, i) for i in range(n)]
            # count equals the number of entries the accessor returns, none of them 0, none beyond
            if any(g == 0 for g in got) or self.call(acc, n) != 0 or self.call(acc, -1) != 0:
                self.v("C20", "enum-count", {"op": cnt, "kind": "count-vs-accessor"}, "%s() = %d but %s returns %s (and %d past the end)" % (cnt, n, acc, got[:10], self.call(acc, n)))
            if len(set(got)) != len(got):
                self.v(prop, "enum-duplicates", {"op": cnt, "kind": "duplicate"}, "%s lists an entity twice: %s" % (acc, sorted(got)))
                # ... which is also C20's "each enumeration count equals the number of entries its accessor actually returns"
                self.v("C20", "enum-duplicates", {"op": cnt, "kind": "duplicate"}, "%s() = %d but %s returns only %d distinct entities: %s" % (cnt, n, acc, len(set(got)), sorted(got)[:12]))
            if which == "all":
                want = set(mc.recs[kind])
            else:
                want = set(i for i, r in mc.recs[kind].items() if r["flags"] & 1)
            wantc = idb_model.multiset(mcol, set((kind, i) for i in want))
            gotc = {}
            bad = False
            for gidx in got:
                c = rcol.get((kind, gidx))
                if c is None:
                    bad = True
                    continue
                gotc[c] = gotc.get(c, 0) + 1
            a, b = idb_model.diff_multisets(wantc, gotc)
            if a or b or bad:
                self.v(prop, "enum-content", {"op": cnt, "kind": "content"},
                       "%s/%s enumerate %d entities, the model has %d (%s %s); libraries loaded %s, faults %s" %
                       (cnt, acc, len(got), len(want), which, kind, self.loaded, self.faults))

    def _check_lookups(self, real, rc, rcol, mc, mcol):
        for fn, (kind, field) in sorted(capi.LOOKUPS.items()):
            names = {}
            for i, r in mc.recs[kind].items():
                names.setdefault(r[field], []).append(i)
            for nm, idxs in sorted(names.items())[:60]:
                if b"\0" in nm:
                    continue
                self.stats["lookups"] += 1
                got = self.call(fn, nm)
                if got == 0 or got not in real[kind] or real[kind][got][field] != nm:
                    # both properties state this: C20 (a stored name finds an entity bearing it) and, with several
                    # libraries, C13 (lookups reflect all loaded files, also those requested after an earlier lookup)
                    for prop_ in (["C20"] if len(self.dbs) == 1 else ["C20", "C13"]):
                        self.v(prop_, "lookup-wrong", {"op": fn, "kind": "stored-name"},
                               "%s(%r) returned %d, which %s (loaded %s)" % (fn, nm[:40], got, "does not bear that name" if got else "means not found", self.loaded))
                elif len(idxs) == 1 and rcol[(kind, got)] != mcol[(kind, idxs[0])]:
                    self.v("C13", "lookup-other-entity", {"op": fn, "kind": "unique-name-wrong-entity"}, "%s(%r): the name is unique but the entity returned is not the model's" % (fn, nm[:40]))
            for nm in (b"", b"no such name", b"\xff\xfe", b"T", b"sh"):
                if nm not in names:
                    self.stats["lookups"] += 1
                    got = self.call(fn, nm)
                    if got != 0:
                        self.v("C20", "lookup-absent", {"op": fn, "kind": "absent-name"}, "%s(%r) returned %d for a name no entity bears" % (fn, nm, got))

    def _check_ranges(self, prop, real, owners):
        ranges = []
        for li, d in sorted(self.defs.items()):
            if d.next_index > d.first_index:
                ranges.append((d.first_index, d.next_index, li))
        ranges.sort()
        for (a1, b1, l1), (a2, b2, l2) in zip(ranges, ranges[1:]):
            if a2 < b1:
                self.v(prop, "ranges-overlap", {"op": "request_module", "kind": "ranges-overlap"}, "module ranges overlap: lib%d [%d,%d) and lib%d [%d,%d)" % (l1, a1, b1, l2, a2, b2))
        for (a, b, li) in ranges:
            if li not in self.loaded:
                continue
            lib = self.dbs[li]["library_name"]
            # every function this library contributed lies inside its range (types may have been merged into an earlier module's node)
            for i in real["functions"]:
                if owners[("functions", i)][0] == lib and not (a <= i < b):
                    # another loaded library may carry the same library name only if generated so; names are unique per universe
                    self.v(prop, "entity-outside-range", {"op": "request_module", "kind": "outside-range"}, "function %d of %r lies outside its module's range [%d,%d)" % (i, lib, a, b))
                    break

    def _fptr_expected(self, i):
        for li, d in self.defs.items():
            if d.next_index > d.first_index and d.first_index <= i < d.next_index:
                off = i - d.first_index
                if 0 <= off < d.num_fptrs:
                    return 0x1000 + off * 16
        return None

    def _check_fptr_boundaries(self, prop):
        """Index-to-module attribution at the edges of every module's range (each module owns exactly its own range)."""
        for li, d in sorted(self.defs.items()):
            if d.next_index <= d.first_index:
                continue
            for i in (d.first_index - 1, d.first_index, d.first_index + 1, d.next_index - 1, d.next_index):
                p = self.call("interrogate_wrapper_pointer", i)
                want = self._fptr_expected(i)
                if (p or None) != want:
                    self.v(prop if prop != "C12" else "C20", "fptr-boundary", {"op": "interrogate_wrapper_pointer", "kind": "module-boundary"},
                           "interrogate_wrapper_pointer(%d) = %r at the edge of lib%d's range [%d,%d); expected %r" % (i, p, li, d.first_index, d.next_index, want))
                    return

    # ------------------------------------------------------------ C20: totality sweep
    def _sweep(self, real):
        nxt = self.W.helper.dbhelper_next_index()
        idxs = list(range(-2, nxt + 3)) + EXTREMES
        produced_by_generator = "real" in self.plan["universe"] and not self.plan.get("faults")
        sigs = self.api.sigs
        for name in sorted(sigs):
            if name in capi.SPECIAL:
                continue
            ret, args = sigs[name]
            if name in capi.T:
                kind, shape, exp = capi.T[name]
                recs = real[kind]
                for i in idxs:
                    rec = recs.get(i)
                    if shape == "i":
                        got = self.call(name, i)
                        if rec is not None:
                            want = exp(rec)
                            if not _same(got, want):
                                self.v("C12" if len(self.dbs) == 1 else "C13", "query-vs-record", {"op": name, "kind": "value"}, "%s(%d) = %r but the record holds %r" % (name, i, _short(got), _short(want)))
                                break
                        elif not capi.neutral_ok(ret, got, name):
                            self.v("C20", "not-neutral", {"op": name, "kind": "invalid-index"}, "%s(%d) = %r for an index that denotes no %s" % (name, i, _short(got), kind))
                            break
                    else:
                        cnt = len(rec[capi.COUNT_FIELD[name]]) if rec is not None else 0
                        for n in list(range(-1, cnt + 2)) + [-(2 ** 31), 2 ** 31 - 1]:
                            got = self.call(name, i, n)
                            if rec is not None and 0 <= n < cnt:
                                want = exp(rec, n)
                                if got == 0 and name in PHANTOM_LISTS and produced_by_generator:
                                    # "each enumeration count equals the number of entries its accessor actually returns":
                                    # in a database written by interrogate itself no counted position may hold "no entity"
                                    self.v("C20", "phantom-entry", {"op": name, "kind": "zero-inside-count"},
                                           "%s(%d,%d) = 0 although the count is %d (database produced by interrogate)" % (name, i, n, cnt))
                                    break
                                if not _same(got, want):
                                    self.v("C12" if len(self.dbs) == 1 else "C13", "query-vs-record", {"op": name, "kind": "value"}, "%s(%d,%d) = %r but the record holds %r" % (name, i, n, _short(got), _short(want)))
                                    break
                            elif not capi.neutral_ok(ret, got, name):
                                self.v("C20", "not-neutral", {"op": name, "kind": "invalid-position"}, "%s(%d,%d) = %r (count is %d)" % (name, i, n, _short(got), cnt))
                                break
            elif name in capi.OWNER:
                kind, what, how = capi.OWNER[name]
                for i in idxs:
                    got = self.call(name, i)
                    if i not in real[kind] and not capi.neutral_ok(ret, got, name):
                        self.v("C20", "not-neutral", {"op": name, "kind": "invalid-index"}, "%s(%d) = %r for an index that denotes no %s" % (name, i, _short(got), kind))
                        break
            elif len(args) == 1 and args[0] in capi.INT_TYPES:
                # enumeration accessors and anything new: totality only
                for i in idxs:
                    self.call(name, i)
            elif len(args) == 2 and all(a in capi.INT_TYPES for a in args):
                for i in idxs[:12] + EXTREMES:
                    for n in (-1, 0, 1, 2 ** 31 - 1, -(2 ** 31)):
                        self.call(name, i, n)
            elif not args:
                self.call(name)
        # function-pointer and derived-name accessors
        for i in idxs:
            hp = self.call("interrogate_wrapper_has_pointer", i)
            p = self.call("interrogate_wrapper_pointer", i)
            want = None
            for li, d in self.defs.items():
                if d.next_index > d.first_index and d.first_index <= i < d.next_index:
                    off = i - d.first_index
                    if 0 <= off < d.num_fptrs:
                        want = 0x1000 + off * 16
            if (p or None) != want or bool(hp) != (want is not None):
                self.v("C20", "fptr", {"op": "interrogate_wrapper_pointer", "kind": "value"}, "interrogate_wrapper_pointer(%d) = %r, has_pointer %r; expected %r" % (i, p, hp, want))
                break
            self.call("interrogate_make_seq_num_name", i)
            self.call("interrogate_make_seq_element_name", i)

    # ------------------------------------------------------------ unique names
    def uniq_lookups(self, op):
        rng = Rng(op.get("seed", 1))
        for li, d in sorted(self.defs.items()):
            if d.num_unique_names <= 0 and not op.get("even_empty"):
                continue
            hashname = self.reg_hash.get(li) or self.dbs[li]["library_hash_name"]
            table = [(d.unique_names[i].name, d.unique_names[i].index_offset) for i in range(d.num_unique_names)]
            present = dict(table)
            probes = []
            for nm, off in table:
                probes.append(nm)
                probes.append(nm + b"0")          # strictly after nm
                probes.append(nm[:-1])            # strictly before nm (or equal to a shorter key)
                probes.append(nm[:-1] + bytes([max(1, nm[-1] - 1)]) + b"~" if nm else b"")
            probes += [b"", b"\x01", b"~~~~~~~~", b"\xff\xff", b"zzzz" * 2500, b"u"]
            for nm in probes:
                self.stats["uniq_lookups"] += 1
                got = self.call("interrogate_get_wrapper_by_unique_name", hashname + nm)
                # other modules may go by the same hash name: every one of them is searched, in registration order
                want = self._uniq_want(hashname, nm)
                if got != want:
                    self.v("C20", "unique-name", {"op": "interrogate_get_wrapper_by_unique_name", "kind": "value"},
                           "get_wrapper_by_unique_name(%r + %r) = %d, expected %d (table of %d names)" % (hashname, nm[:30], got, want, len(table)))
                    return
        for s in (b"", b"a", b"ab", b"abc", b"abcd", b"abcde", b"????x", b"h00", b"\xff", b"x" * 10000):
            self.stats["uniq_lookups"] += 1
            got = self.call("interrogate_get_wrapper_by_unique_name", s)
            want = self._uniq_want(s[:4], s[4:]) if len(s) >= 4 else 0
            if got != want:
                self.v("C20", "unique-name", {"op": "interrogate_get_wrapper_by_unique_name", "kind": "short-or-unknown"}, "get_wrapper_by_unique_name(%r) = %d, expected %d" % (s[:20], got, want))
                return

    def _uniq_want(self, h, nm):
        """Reference model of the unique-name lookup: the wrapper of the first registered module that goes by
        hash name h and lists nm ("looking an entity up by each of its names returns an entity bearing that name")."""
        for li in self.reg_order:
            d = self.defs.get(li)
            if d is not None and self.reg_hash.get(li) is not None and self.reg_hash[li] == h:
                for i in range(d.num_unique_names):
                    if d.unique_names[i].name == nm:
                        return d.first_index + d.unique_names[i].index_offset
        return 0

    # ------------------------------------------------------------ driver
    def run(self, progress):
        self.reg_order = []
        for oi, op in enumerate(self.plan["ops"]):
            progress(oi, op)
            self.stats["ops"] += 1
            k = op["op"]
            if k == "search_dir":
                self.call("interrogate_add_search_directory", self.root.encode())
                self.searchdir = True
                self.findable = True
            elif k == "search_path":
                # a search path of several components with the scratch directory in the middle
                parts = []
                for i in range(op.get("before", 1)):
                    d = os.path.join(self.root, "empty-b%d" % i)
                    os.makedirs(d, exist_ok=True)
                    parts.append(d)
                parts.append(self.root)
                for i in range(op.get("after", 1)):
                    d = os.path.join(self.root, "empty-a%d" % i)
                    os.makedirs(d, exist_ok=True)
                    parts.append(d)
                self.call("interrogate_add_search_path", ":".join(parts).encode())
                self.searchdir = True
                self.findable = True
            elif k == "reg_db":
                self.reg_db(op["lib"])
                self.reg_order.append(op["lib"])
            elif k == "reg_mod":
                self.reg_mod(op["lib"], op)
                self.reg_order.append(op["lib"])
            elif k == "reg_again":
                # the same module definition handed over once more (a module's initialisation code running again): no effect
                d = self.defs.get(op["lib"])
                if d is not None:
                    self.call("interrogate_request_module", ctypes.byref(d))
            elif k == "flag":
                self.check_flag("flag op")
            elif k == "count":
                self.call(op.get("fn", "interrogate_number_of_functions"))
                self.settle()
                self.check_flag("count")
            elif k == "count_first":
                # C20: "each enumeration count equals the number of entries its accessor actually returns" -- asked as the
                # very first query after a registration, count first, accessor second
                cnt = op["fn"]
                acc = capi.ENUMS[cnt][0]
                n = self.call(cnt)
                got = [self.call(acc, i) for i in range(n)]
                past = self.call(acc, n)
                self.settle()
                if any(g == 0 for g in got) or past != 0:
                    self.v("C20", "enum-count", {"op": cnt, "kind": "count-vs-accessor"},
                           "%s() = %d as the first query after a registration, but %s returns %s for 0..%d and %d at position %d" % (cnt, n, acc, got[:8], n - 1, past, n))
            elif k == "lookup":
                # a by-name lookup in the middle of a history (cache freshness path)
                self.call(op["fn"], op["name"].encode("latin-1"))
                self.settle()
            elif k == "verify":
                self.verify(sweep=op.get("sweep", False), lookups=op.get("lookups", True), dump_first=op.get("dump_first", False))
            elif k == "uniq":
                self.uniq_lookups(op)
            elif k == "roundtrip":
                self.roundtrip(op)
            elif k == "touch":
                # totality only (for damage whose effect on the content is not modelled): load, ask, serialise, sweep a few functions
                self.call("interrogate_number_of_types")
                self.call("interrogate_error_flag")
                self.pending = []
                self.dump()
                for i in range(-1, 40):
                    self.call("interrogate_type_name", i)
                    self.call("interrogate_function_name", i)
                    self.call("interrogate_type_number_of_methods", i)
                    self.call("interrogate_wrapper_number_of_parameters", i)
        return {"violations": self.viol, "stats": self.stats}

    def roundtrip(self, op):
        """C12: a single current-format file loaded into an empty database re-serialises to identical bytes."""
        got = self.verify(sweep=op.get("sweep", True))
        if got is None or len(self.loaded) != 1 or len(self.dbs) != 1:
            return
        real, raw = got
        li = self.loaded[0]
        db = self.dbs[li]
        p = os.path.join(os.path.dirname(self.root), os.path.basename(self.root) + ".rt")
        self.W.helper.dbhelper_write(p.encode(), db["file_identifier"], db["library_name"], db["library_hash_name"], db["module_name"])
        with open(p, "rb") as f:
            out = f.read()
        os.unlink(p)
        want = F.serialise(idb_model.loader_normalise(db), minor=3)
        # Loading renumbers every index into the module's range (wrappers first, then functions, types, manifests,
        # elements, make_seqs).  Byte identity is therefore demanded of files in that canonical order -- every file
        # interrogate writes together with its code file -- and isomorphism (checked by verify) of the others.
        order = [i for sec in ("wrappers", "functions", "types", "manifests", "elements", "make_seqs") for i in sorted(db[sec])]
        canonical = order == list(range(1, len(order) + 1))
        self.stats["roundtrip_canonical"] = self.stats.get("roundtrip_canonical", 0) + (1 if canonical else 0)
        if not canonical and "real" in self.plan["universe"] and not self.plan.get("faults"):
            # "all databases interrogate can produce": every file the tool writes is numbered the way the reader numbers it
            self.v("C12", "roundtrip-bytes", {"op": "write(load(F))", "kind": "interrogate-wrote-non-canonical-indices", "minor": db["minor"]},
                   "a database written by interrogate is not in the reader's index order (first indices %s), so write(load(F)) cannot equal F" % order[:8])
        if canonical and out != want:
            pos = next((i for i, (a, b) in enumerate(zip(out, want)) if a != b), min(len(out), len(want)))
            self.v("C12", "roundtrip-bytes", {"op": "write(load(F))", "kind": "bytes-differ", "minor": db["minor"]},
                   "write(load(F)) differs from F (format 3.%d) at byte %d: got %r, want %r" % (db["minor"], pos, out[max(0, pos - 30):pos + 30], want[max(0, pos - 30):pos + 30]))


def _short(v):
    if isinstance(v, (bytes, str)) and len(v) > 40:
        return v[:40]
    return v


def _same(got, want):
    if isinstance(want, bytes):
        return (got or b"") == want.split(b"\0")[0]
    if isinstance(want, bool):
        return bool(got) == want
    return got == want


def child_main(W, plan, wfd, real_dir, scratch):
    out = os.fdopen(wfd, "w")
    root = os.path.join(scratch, "db-%07d" % os.getpid())
    shutil.rmtree(root, ignore_errors=True)
    os.makedirs(root)
    try:
        def progress(oi, op):
            out.write(json.dumps({"at": oi, "op": op.get("op")}) + "\n")
            out.flush()
        h = History(W, plan, root, real_dir)
        res = h.run(progress)
        out.write(json.dumps({"done": res}) + "\n")
        out.flush()
    finally:
        shutil.rmtree(root, ignore_errors=True)
        for ext in (".trace", ".dump", ".rt"):
            try:
                os.unlink(root + ext)
            except OSError:
                pass
    os._exit(0)


def serve():
    libdb, helper, repo, simos, real_dir, scratch = sys.argv[1:7]
    W = World(libdb, helper, repo, simos if simos != "-" else None)
    errlog = os.path.join(scratch, "worker-%d.err" % os.getpid())
    for line in sys.stdin:
        req = json.loads(line)
        plan = req["plan"]
        r, w = os.pipe()
        t0 = time.monotonic()
        pid = os.fork()
        if pid == 0:
            os.close(r)
            efd = os.open(errlog, os.O_WRONLY | os.O_CREAT | os.O_TRUNC, 0o644)
            os.dup2(efd, 2)
            try:
                child_main(W, plan, w, real_dir, scratch)
            except BaseException as e:  # noqa
                import traceback
                os.write(w, (json.dumps({"harness_error": traceback.format_exc()[-1500:]}) + "\n").encode())
                os._exit(3)
        os.close(w)
        buf = b""
        deadline = t0 + req.get("timeout", 60)
        timed_out = False
        while True:
            left = deadline - time.monotonic()
            if left <= 0:
                timed_out = True
                os.kill(pid, signal.SIGKILL)
                break
            rl, _, _ = select.select([r], [], [], left)
            if not rl:
                continue
            chunk = os.read(r, 1 << 16)
            if not chunk:
                break
            buf += chunk
        os.close(r)
        _, status = os.waitpid(pid, 0)
        lines = [json.loads(x) for x in buf.decode("utf-8", "replace").splitlines() if x.strip()]
        done = next((x["done"] for x in lines if "done" in x), None)
        herr = next((x["harness_error"] for x in lines if "harness_error" in x), None)
        last = next((x for x in reversed(lines) if "at" in x), None)
        res = {"done": done, "harness_error": herr, "last": last, "timeout": timed_out, "wall": time.monotonic() - t0}
        if os.WIFSIGNALED(status):
            res["signal"] = os.WTERMSIG(status)
        else:
            res["exit"] = os.WEXITSTATUS(status)
        try:
            with open(errlog, "rb") as f:
                res["stderr"] = f.read()[-6000:].decode("utf-8", "replace")
        except OSError:
            res["stderr"] = ""
        sys.stdout.write(json.dumps({"result": res}) + "\n")
        sys.stdout.flush()


if __name__ == "__main__":
    serve()

#ifndef SCAN_INC_H
#define SCAN_INC_H
#define INC_VALUE (3 * (2 + 1) / 3)
#if INC_VALUE > 2
struct inc_struct { int member; char name[INC_VALUE]; };
#endif
#define INC_FN(a, b, c) ((a) * (b) / (c))
static const int inc_const = INC_FN(4, 3, 2);
#endif

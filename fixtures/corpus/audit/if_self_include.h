#if 1'0 \
#include "if_self_include.h" \
 + 1'0
int x;
#endif
int y;

"""known_findings.jsonl matching (DESIGN.md section 4).  Never written at run time."""
import json
import os

from . import build

PATH = os.path.join(build.VERIF, "known_findings.txt")


def load():
    out = []
    if not os.path.exists(PATH):
        return out
    with open(PATH) as f:
        for line in f:
            line = line.strip()
            if not line or line.startswith("#") or line.startswith("fixed:"):
                continue
            if line.startswith("known:"):
                e = json.loads(line[len("known:"):])
                e["status"] = "known"
                out.append(e)
    return out


def match(property_id, key, entries=None):
    """Returns the 'known' entry whose key equals `key` (dict compare on the
    entry's key fields: every field the entry lists must be equal)."""
    if entries is None:
        entries = load()
    for e in entries:
        if e.get("property") != property_id or e.get("status") != "known":
            continue
        ek = e.get("key", {})
        if ek and all(key.get(k) == v for k, v in ek.items()):
            return e
    return None

template<int N> struct S : S<N-1> { int v; };
template<> struct S<0> { int z; };
template<class T> struct Crtp { T *self(); };
struct D : Crtp<D> {
__published:
  D();
};
namespace n { struct A {}; }
struct A : n::A {
__published:
  A();
};
namespace m { struct A : ::A {}; }
struct Self : Self {};
typedef S<3> S3;
__begin_publish
S3 *make_s3();
__end_publish

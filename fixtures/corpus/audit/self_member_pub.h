struct C {
__published:
  struct C;
  C();
  int m;
};

struct alignas(struct X {}) Y {};
struct S {
__published:
  alignas(struct X2 {}) int v;
  alignas(enum E {a}) int w;
};

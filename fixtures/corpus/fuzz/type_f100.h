template<class T> struct W { __published: T get() const; typedef T value_type; };
template<class T, class U> struct P2 { __published: T first() const; U second() const; };
struct HA { typedef int value_type; typedef unsigned long size_type; typedef int *ptr; typedef int &ref; struct inner { int q; }; typedef int (*fn)(int a); enum E { e0, e1 }; struct Nested { int z; }; using alias_t = int; static const int N = 2; int data; };
struct HB { typedef char value_type; typedef unsigned long size_type; typedef char *ptr; typedef char &ref; struct inner { int q; }; typedef int (*fn)(value_type); enum E { e0, e1 }; struct Nested { int z; }; using alias_t = char; static const int N = 3; int data; };
struct HC { typedef int value_type; typedef unsigned long size_type; typedef int *ptr; typedef int &ref; struct inner { int q; }; typedef int (*fn)(value_type); enum E { e0, e1 }; struct Nested { int z; }; using alias_t = int; static const int N = 2; int data; };
typedef int GI; typedef float GF; typedef int *GP; typedef int GA[3]; typedef int (*GFn)(int); extern int gv; extern double gw;
typedef HC T0;
typedef W<GF> T1;
typedef char * T2;
typedef HA * T3;
typedef HB T4;
typedef GF T5;
typedef volatile HA::value_type T6;
typedef W<int> T7;
typedef unsigned int T8;
typedef W<decltype(HA::N)> T9;
typedef HC::fn const * const T10;
typedef HB T11;
__begin_publish
W<decltype(HA::N) (*)(GP * b)> g0();
void g1(decltype(gv), bool b1);
int g2(W<HA::E[3]>, GA a1, HA::value_type a2);
int g3();
HB g4(W<unsigned int *>);
int g5();
int g6();
void g7();
W<W<GI[2]>> g8();
__end_publish

template<typename T> constexpr T three = three;
int x = three<int>;

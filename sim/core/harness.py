"""Shared driver: generate plans from one seed, execute them on the worker
pool, judge, match known findings, shrink, gate by replay, write evidence."""
import itertools
import json
import os
import subprocess
import sys
import time

from . import build, findings, runner
from .rng import fnv1a

DEFAULT_SEED = {"quick": 20261002, "thorough": 20261003}


class Ctx:
    def __init__(self, prop, tier, seed, jobs):
        self.prop = prop
        self.tier = tier
        self.seed = seed
        self.jobs = jobs
        self.state = {}


def plan_hash(plan):
    return "%016x" % fnv1a(json.dumps(plan, sort_keys=True))


def write_evidence(prop, tier, seed, level, coverage, wall, violations, assumptions):
    d = os.path.join(build.VERIF, "evidence")
    os.makedirs(d, exist_ok=True)
    ev = {"property_id": prop, "tier": tier, "seed": seed, "level": level, "coverage": coverage,
          "assumptions": assumptions, "wall_s": round(wall, 2), "violations": violations}
    # minimal self-validation against EVIDENCE.schema.json's generic rules
    for k in ("evaluations", "distinct_nontrivial", "rule", "samples"):
        assert k in coverage, k
    assert isinstance(coverage["samples"], list) and coverage["samples"]
    tmp = os.path.join(d, prop + ".json.tmp")
    with open(tmp, "w") as f:
        json.dump(ev, f, indent=1, sort_keys=True)
        f.write("\n")
    os.replace(tmp, os.path.join(d, prop + ".json"))


def _replay_once(prop, path):
    """Replays a plan file in a fresh process; returns the REPLAY line or None."""
    check = os.path.join(build.VERIF, "check")
    r = subprocess.run([sys.executable, check, prop, "--replay", path, "--no-build"], capture_output=True, text=True)
    for line in r.stdout.splitlines():
        if line.startswith("REPLAY "):
            return line, r.returncode
    return None, r.returncode


def viol_key(v):
    return json.dumps(v["key"], sort_keys=True)


def main_for(scn, prop, argv):
    import argparse
    ap = argparse.ArgumentParser(prog="check " + prop)
    ap.add_argument("--tier", default=os.environ.get("VERIF_TIER", "quick"), choices=["quick", "thorough"])
    ap.add_argument("--seed", type=int, default=None)
    ap.add_argument("--jobs", type=int, default=int(os.environ.get("VERIF_JOBS", "16")))
    ap.add_argument("--replay", default=None)
    ap.add_argument("--no-build", action="store_true")
    ap.add_argument("--hashes", default=None, help="write per-run hashes to this file (determinism self-test)")
    ap.add_argument("--limit", type=int, default=None, help="cap the number of runs (self-tests)")
    ap.add_argument("--no-evidence", action="store_true")
    args = ap.parse_args(argv)
    if os.environ.get("VERIF_TIER") in ("quick", "thorough"):
        args.tier = os.environ["VERIF_TIER"]
    rp = None
    if args.replay:
        # a replay file names the tier and seed it was found under: the scenario's setup (job lists, thresholds) may depend on them
        with open(args.replay) as f:
            rp = json.load(f)
        if rp.get("tier") in ("quick", "thorough"):
            args.tier = rp["tier"]
        if args.seed is None and isinstance(rp.get("seed"), int):
            args.seed = rp["seed"]
    seed = args.seed
    if seed is None:
        seed = int(os.environ["VERIF_SEED"]) if os.environ.get("VERIF_SEED", "").lstrip("-").isdigit() else DEFAULT_SEED[args.tier]
    ctx = Ctx(prop, args.tier, seed, args.jobs)
    ctx.no_build = args.no_build
    print("check %s scenario=%s tier=%s VERIF_SEED=%d jobs=%d" % (prop, scn.NAME, ctx.tier, seed, ctx.jobs), flush=True)
    t0 = time.monotonic()
    runner.scratch_root()
    scn.setup(ctx)

    if args.replay:
        res = scn.execute(rp["plan"])
        vs = [v for v in res["violations"] if v["property"] == prop]
        want = json.dumps(rp.get("class"), sort_keys=True)
        vs = [v for v in vs if viol_key(v) == want] or vs
        if vs:
            v = vs[0]
            print("REPLAY class=%s hash=%s" % (viol_key(v), res["hash"]))
            print("  " + v["msg"])
            print("VIOLATION property=%s replay=%s" % (prop, args.replay))
            return 1
        print("REPLAY class=none hash=%s" % res["hash"])
        return 0

    plans_iter = iter(scn.generate(ctx))
    known = findings.load()
    known_hit = {}
    new = {}
    other = {}
    harness_faults = []
    cov = scn.Cov(ctx)
    nruns = 0
    hashes = open(args.hashes, "w") if args.hashes else None
    pool = runner.Pool(ctx.jobs)
    try:
        while True:
            batch = list(itertools.islice(plans_iter, 40000))
            if args.limit is not None:
                batch = batch[:max(0, args.limit - nruns)]
            if not batch:
                break
            results = pool.map(scn.execute, batch)
            nruns += len(batch)
            for p, r in zip(batch, results):
                cov.add(p, r)
                if hashes:
                    hashes.write("%s %s %s\n" % (plan_hash(p), r["hash"], r["abstract"]))
                for hf in r.get("harness_faults", []):
                    harness_faults.append((p, hf))
                for v in r["violations"]:
                    if v["property"] != prop:
                        other.setdefault(v["property"], []).append(v)
                        continue
                    e = findings.match(prop, v["key"], known)
                    if e is not None:
                        known_hit.setdefault(json.dumps(e, sort_keys=True), [e, 0])[1] += 1
                    else:
                        lst = new.setdefault(viol_key(v), [])
                        if len(lst) < 50:
                            lst.append((p, r, v))
                        else:
                            lst.append(None)
            if nruns >= 40000:
                print("  ... %d runs, %d violation class(es) so far, %.0fs" % (nruns, len(new), time.monotonic() - t0), flush=True)
    finally:
        pool.close()
    if hashes:
        hashes.close()
    print("  %d simulated runs executed" % nruns, flush=True)
    wall_runs = time.monotonic() - t0

    for _, (e, n) in sorted(known_hit.items()):
        print("KNOWN-FINDING: property=%s %s (%d runs)" % (prop, e["what"], n))
    for op, vs in sorted(other.items()):
        print("  note: %d violation(s) of %s seen in these runs; decided by ./check %s" % (len(vs), op, op))

    exit_code = 0
    reported = 0
    if harness_faults:
        p, hf = harness_faults[0]
        print("HARNESS-FAULT (%d): %s" % (len(harness_faults), hf))
        exit_code = 2
    for k in sorted(new)[:8]:
        p, r, v = new[k][0]
        print("  violation class %s in %d run(s); first: %s" % (k, len(new[k]), v["msg"]), flush=True)

        def fails(cand):
            rr = scn.execute(cand)
            return any(x["property"] == prop and viol_key(x) == k for x in rr["violations"])
        small = scn.shrink(p, fails) if hasattr(scn, "shrink") else p
        rr = scn.execute(small)
        vv = [x for x in rr["violations"] if x["property"] == prop and viol_key(x) == k]
        if not vv:
            small, rr, vv = p, r, [v]
        path = os.path.join(build.VERIF, "replays", "%s-%d-%s-%s.json" % (prop, seed, plan_hash(small), runner.sha(k)[:6]))
        os.makedirs(os.path.dirname(path), exist_ok=True)
        with open(path, "w") as f:
            json.dump({"property": prop, "scenario": scn.NAME, "seed": seed, "tier": ctx.tier, "class": json.loads(k), "msg": vv[0]["msg"],
                       "hash": rr["hash"], "plan": small, "detail": rr.get("detail")}, f, indent=1, sort_keys=True)
        l1, c1 = _replay_once(prop, path)
        l2, c2 = _replay_once(prop, path)
        want = "REPLAY class=%s hash=%s" % (k, rr["hash"])
        if l1 != want or l2 != want or c1 != 1 or c2 != 1:
            print("HARNESS-FAULT: replay of %s did not reproduce (%r / %r, want %r)" % (path, l1, l2, want))
            exit_code = 2
            continue
        print("VIOLATION property=%s replay=%s" % (prop, path))
        print("  " + vv[0]["msg"])
        reported += 1
        exit_code = 1       # a confirmed, replayable violation outranks a class that failed the replay gate

    if reported:
        exit_code = 1       # ... also when a later class failed the gate
    for k in sorted(new)[8:]:
        print("  further violation class %s in %d run(s), not minimised: %s" % (k, len(new[k]), new[k][0][2]["msg"][:300]), flush=True)
        if exit_code == 0:
            exit_code = 1
    wall = time.monotonic() - t0
    if not args.no_evidence:
        cov = cov.finish()
        cov.setdefault("runs_per_hour", int(nruns / max(wall_runs, 1e-6) * 3600))
        cov.setdefault("seeds_per_hour", cov["runs_per_hour"])
        cov["repo"] = build.repo_id()
        cov["known_findings_printed"] = [e["what"] for _, (e, n) in sorted(known_hit.items())]
        cov["real_vs_stub"] = scn.REAL_VS_STUB
        write_evidence(prop, ctx.tier, seed, scn.LEVEL[prop], cov, wall, len(new), scn.ASSUMPTIONS)
    print("check %s: %d runs, %d new violation class(es), %d known finding(s), %.1fs" %
          (prop, nruns, len(new), len(known_hit), wall), flush=True)
    return exit_code

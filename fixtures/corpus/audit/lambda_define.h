__begin_publish
#define LAMBDA_X []{}
__end_publish
int z;

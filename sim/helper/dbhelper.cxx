// dbhelper.cxx -- extern "C" shims compiled against /repo's headers and linked
// with libinterrogatedb.so: write the loaded (merged) database back out with
// the real writer, and read private state the C API does not export.
#include <cstring>
#include <fstream>
#include <iostream>
#include <map>
#include <set>
#include <sstream>
#include <string>
#include <vector>

#define private public
#define protected public
#include "interrogateDatabase.h"
#include "interrogate_request.h"
#undef private
#undef protected

extern "C" {

// Serialises the whole global database with InterrogateDatabase::write().
int dbhelper_write(const char *path, int file_identifier, const char *lib,
                   const char *hash, const char *mod) {
  InterrogateModuleDef def;
  memset(&def, 0, sizeof(def));
  def.file_identifier = file_identifier;
  def.library_name = lib;
  def.library_hash_name = hash;
  def.module_name = mod;
  std::ofstream out(path, std::ios::binary);
  InterrogateDatabase::get_ptr()->write(out, &def);
  out.close();
  return out.fail() ? 0 : 1;
}

int dbhelper_next_index() {
  return InterrogateDatabase::get_ptr()->_next_index;
}

int dbhelper_pending_requests() {
  return (int)InterrogateDatabase::get_ptr()->_requests.size();
}

int dbhelper_lookups_fresh() {
  return InterrogateDatabase::get_ptr()->_lookups_fresh;
}

int dbhelper_num_modules() {
  return (int)InterrogateDatabase::get_ptr()->_modules.size();
}

int dbhelper_file_minor_version() {
  return InterrogateDatabase::get_file_minor_version();
}

}

"""./check selftest determinism [ids...] [--limit N]
Runs each scenario's quick plan set twice -- at 4 and at 16 workers, the second
time in a fresh interpreter under another PYTHONHASHSEED -- and diffs the
per-run (plan hash, run hash, abstract trace) lines.  Any difference is a
harness bug (DESIGN.md section 8)."""
import os
import subprocess
import sys
import tempfile

from . import build

IDS = ["C19", "C14", "C15", "C16", "C12", "C13", "C20"]


def determinism(argv):
    ids = [a for a in argv if a.startswith("C")] or IDS
    limit = None
    if "--limit" in argv:
        limit = argv[argv.index("--limit") + 1]
    check = os.path.join(build.VERIF, "check")
    bad = 0
    for pid in ids:
        outs = []
        for jobs, hs in ((4, "1"), (16, "987654321")):
            f = tempfile.NamedTemporaryFile(prefix="verif-hashes-", suffix=".txt", delete=False)
            f.close()
            env = dict(os.environ, PYTHONHASHSEED=hs)
            cmd = [sys.executable, check, pid, "--tier", "quick", "--jobs", str(jobs), "--hashes", f.name, "--no-evidence", "--no-build"]
            if limit:
                cmd += ["--limit", limit]
            r = subprocess.run(cmd, env=env, capture_output=True, text=True)
            if r.returncode not in (0, 1):
                print("selftest: %s run failed (%d): %s" % (pid, r.returncode, r.stdout[-500:] + r.stderr[-500:]))
                bad += 1
            with open(f.name) as fh:
                outs.append(fh.read().splitlines())
            os.unlink(f.name)
        a, b = outs
        diff = [(x, y) for x, y in zip(a, b) if x != y]
        if len(a) != len(b) or diff:
            bad += 1
            print("DETERMINISM FAIL %s: %d vs %d runs, %d differing; first: %s" % (pid, len(a), len(b), len(diff), diff[:1]))
        else:
            print("determinism ok %s: %d runs identical at jobs=4/PYTHONHASHSEED=1 and jobs=16/PYTHONHASHSEED=987654321" % (pid, len(a)))
    return 1 if bad else 0


def main(argv):
    if not argv or argv[0] == "determinism":
        return determinism(argv[1:])
    print(__doc__)
    return 64

"""C14 -- output is a pure function of the inputs.  The same job re-executed
under seeded clock / heap layout / ASLR / environment / stale outputs."""
import json
import os
import re

from ..core import build, runner
from ..core.rng import Rng, run_rng, fnv1a
from ..model import hdr_gen
from . import common

NAME = "repro"
LEVEL = {"C14": "exploration"}
ASSUMPTIONS = [
    "heap layout is perturbed by a seeded scatter allocator (libsimheap.so) on the shipping-flag build; pointer-order dependence that needs a different perturbation (e.g. stack addresses only) is reached only through ASLR on/off and environment size",
    "only C/POSIX locales are installed: LC_*/LANG perturbation can only show the variables are ignored",
    "the wall clock is reached only through time()/gettimeofday()/clock_gettime(CLOCK_REALTIME) via the PLT",
]
REAL_VS_STUB = {
    "real": ["interrogate", "interrogate_module", "libstdc++", "tmpfs scratch tree", "kernel ASLR (toggled with setarch -R)"],
    "stub": ["wall clock (libsimos.so)", "malloc family (libsimheap.so, seeded scatter allocator)", "process environment (scheduler)", "the build system re-running the job"],
}

SDE = 1234567890
SDE_CHOICES = ["1234567890", "0", "1", "2147483647", "1700000000", "00", "12abc", "abc"]
OPTS = ["-string", "-fnames", "-unique-names", "-promiscuous", "-nomangle", "-do-module", "-true-names", "-refcount", "-assert", "-track-interpreter", "-spam", "-fptrs"]
LOCALES = [None, "C", "POSIX", "C.UTF-8", "de_DE.UTF-8", "tr_TR.UTF-8"]
TZS = [None, "UTC", "Asia/Tokyo", "America/New_York", ":/nonexistent"]
ID_LINE = re.compile(rb"^  (-?\d+),  /\* file_identifier \*/$", re.M)


def job_from_spec(spec):
    """Returns a list of steps [(stepname, job)] for the spec."""
    steps = _job_from_spec(spec)
    if spec.get("files_first"):
        steps = [(n, common.files_first(j)) for n, j in steps]
    return steps


def _job_from_spec(spec):
    be = spec["backend"]
    opts = list(spec.get("opts", []))
    if spec["kind"] == "fixture-rich":
        return [("rich", common.igate_job("rich", {"rich.h": common.read_fixture("single/rich.h")}, ["rich.h"], be, opts=opts))]
    if spec["kind"] == "fixture-slots":
        # differently named functions that map to the same Python slot (operator bool / __bool__, size / __len__, ...)
        return [("slots", common.igate_job("slots", {"slots.h": common.read_fixture("single/slots.h")}, ["slots.h"], be, opts=opts))]
    if spec["kind"] == "gen":
        rng = Rng(spec["hseed"])
        text, _ = hdr_gen.gen_header(rng, "g", spec["n_classes"], overload_heavy=True, n_macros=spec.get("n_macros", 5), n_funcs=3)
        return [("g", common.igate_job("g", {"g.h": text}, ["g.h"], be, opts=opts))]
    if spec["kind"] == "imports":
        # library "base" publishes same-named classes in different namespaces; library "user" reaches them through -I
        rng = Rng(spec["hseed"])
        nss = ["inventory", "menu", "zoo", "alpha", "omega"][:spec["n_ns"]]
        simple = ["Item", "Node", "Entry"][:spec["n_simple"]]
        base = ["#ifndef BASE_H", "#define BASE_H"]
        for ns in rng.shuffle(nss):
            base.append("namespace %s {" % ns)
            for sn in simple:
                base += ["class %s {" % sn, "__published:", "  %s();" % sn, "  int get_%s_%s() const;" % (ns, sn.lower()), "};"]
            base.append("}")
        base.append("#endif")
        user = ["#ifndef USER_H", "#define USER_H", '#include "base.h"']
        n = 0
        for ns in rng.shuffle(nss):
            for sn in simple:
                user += ["class U%d : public %s::%s {" % (n, ns, sn), "__published:", "  U%d();" % n,
                         "  void take(const %s::%s &other, %s::%s *ptr = nullptr);" % (ns, sn, rng.choice(nss), sn), "};"]
                n += 1
        user.append("#endif")
        files = {"base/base.h": "\n".join(base) + "\n", "user/user.h": "\n".join(user) + "\n"}
        return [("base", common.igate_job("base", files, ["base.h"], be, opts=opts, srcdir="src/base")),
                ("user", common.igate_job("user", files, ["user.h"], be, opts=opts, srcdir="src/user", incs=["src/base"]))]
    if spec["kind"] == "own":
        # one of the project's own headers, everything exported (-promiscuous): real code nobody wrote for the occasion
        d, fn = spec["header"].split("/")
        with open(os.path.join(build.REPO, "src", d, fn), "rb") as f:
            data = f.read().decode("latin-1")
        incs = [os.path.join(build.REPO, "src", x) for x in ("interrogatedb", "dtoolutil", "dtoolbase", "cppparser", "interrogate")]
        return [("own", common.igate_job("own", {fn: data}, [fn], be, opts=opts + (["-promiscuous"] if "-promiscuous" not in opts else []), incs=incs))]
    if spec["kind"] == "pipeline":
        libs = common.libs_fixture()
        steps = []
        for l in ("a", "b", "c"):
            steps.append((l, common.igate_job(l, libs[l]["files"], libs[l]["main"], be, opts=opts, srcdir=libs[l]["srcdir"], incs=libs[l]["incs"])))
        mod = {"name": "mod", "tool": "interrogate_module", "files": {},
               "argv": ["-oc", "out-oc/mod_module.cxx", "-module", "m", "-library", "m", be if be in ("-python", "-python-native") else "-python",
                        "out-od/libc.in", "out-od/liba.in", "out-od/libb.in"],
               "outputs": {"oc": "out-oc/mod_module.cxx"}, "nfiles": 3}
        steps.append(("mod", mod))
        return steps
    raise ValueError(spec)


def gen_env(rng, first=False, sde=None):
    sde = SDE if sde is None else sde
    if first:
        return {"heap": None, "fill": None, "aslr": True, "clock": [1000000000, 1], "sde": sde, "junk": 0, "tz": None, "lang": None,
                "lc_all": None, "lc_numeric": None, "stale": False, "stdin": "null", "home": None, "cwd": None, "pwd": None, "vars": []}
    return {
        "heap": rng.range(1, 1 << 30) if rng.chance(3, 4) else None,
        "fill": rng.choice([None, 0x5A, 0xA5, 0xFF, 0x01, 0x7F]),
        "aslr": rng.chance(2, 3),
        "clock": [rng.range(1, (1 << 31) - 2), rng.choice([0, 1, 1, 60, 86400, 1000000])],
        "sde": sde if rng.chance(3, 5) else None,
        "junk": rng.choice([0, 0, 1, 17, 200]),
        "tz": rng.choice(TZS),
        "lang": rng.choice(LOCALES),
        "lc_all": rng.choice(LOCALES),
        "lc_numeric": rng.choice(LOCALES),
        "stale": rng.choice([False, False, False, "long", "short", "tail", "tail"]),
        "stdin": rng.choice(["null", "pipe"]),
        "home": rng.choice([None, "/nonexistent", "/tmp"]),
        # the working directory reached through a symbolic link, with PWD naming the logical path, the physical one, garbage, or unset
        "cwd": rng.choice([None, None, "symlink"]),
        "pwd": rng.choice([None, "logical", "physical", "bogus"]),
        # variables that tools of this kind are known to consult
        "vars": rng.subset(["INTERROGATEDB_PATH", "PANDA_ROOT", "POSIXLY_CORRECT", "TMPDIR", "CWD", "DTOOL_INSTALL", "PRC_DIR", "CPLUS_INCLUDE_PATH", "C_INCLUDE_PATH", "CPATH"], 1, 4),
    }


def setup(ctx):
    if not ctx.no_build:
        build.ensure_shims()
        build.ensure("rel", ("interrogate", "interrogate_module"))


def generate(ctx):
    plans = []
    njobs, nexec = (60, 6) if ctx.tier == "quick" else (1500, 16)
    for i in range(njobs):
        rng = run_rng(ctx.seed, NAME, i)
        be = rng.choice(common.BACKENDS + ["-python-native"])
        opts = rng.subset(OPTS, 1, 4)
        if "-fnames" in opts and "-true-names" in opts:
            opts.remove("-true-names")
        k = i % 5
        if i % 10 == 6:
            spec = {"kind": "fixture-slots", "backend": rng.choice(["-python-native", "-python-native", "-python", "-c"]), "opts": opts}
        elif k == 4:
            spec = {"kind": "imports", "backend": "-python-native" if rng.chance(3, 4) else be, "opts": [o for o in opts if o != "-do-module"],
                    "hseed": rng.next(), "n_ns": rng.range(2, 5), "n_simple": rng.range(1, 3)}
        elif k == 0:
            spec = {"kind": "fixture-rich", "backend": be, "opts": opts}
        elif k == 3:
            spec = {"kind": "pipeline", "backend": be, "opts": [o for o in opts if o != "-do-module"]}
        else:
            spec = {"kind": "gen", "backend": be, "opts": opts, "hseed": rng.next(), "n_classes": rng.range(1, 10), "n_macros": rng.range(0, 12)}
        if i % 6 == 5:
            spec = {"kind": "own", "backend": be, "opts": opts,
                    "header": rng.choice(["interrogatedb/interrogateType.h", "interrogatedb/interrogateDatabase.h", "interrogatedb/interrogate_interface.h", "interrogatedb/interrogate_request.h",
                                          "dtoolutil/filename.h", "dtoolutil/dSearchPath.h", "cppparser/cppScope.h", "cppparser/cppPreprocessor.h", "cppparser/cppExpression.h",
                                          "cppparser/cppStructType.h", "interrogate/functionRemap.h", "interrogate/interfaceMakerPythonNative.h", "interrogate/typeManager.h"])}
        if i % 3 == 1:
            spec["files_first"] = True      # the file arguments ahead of the options: what POSIXLY_CORRECT changes the meaning of
        sde = rng.choice(SDE_CHOICES)
        envs = [gen_env(rng, first=True, sde=sde)] + [gen_env(rng, sde=sde) for _ in range(nexec - 1)]
        plans.append({"id": i, "spec": spec, "envs": envs})
    return plans


def epoch_value(text):
    """What atoi() makes of SOURCE_DATE_EPOCH."""
    m = re.match(r"\s*([+-]?\d+)", str(text))
    return int(m.group(1)) if m else 0


def _env_dict(env):
    e = {"PATH": "/usr/bin:/bin"}
    if env["sde"] is not None:
        e["SOURCE_DATE_EPOCH"] = str(env["sde"])
    for i in range(env["junk"]):
        e["VERIF_JUNK_%03d" % i] = "x" * (7 + 13 * i % 90)
    for k, var in (("tz", "TZ"), ("lang", "LANG"), ("lc_all", "LC_ALL"), ("lc_numeric", "LC_NUMERIC"), ("home", "HOME")):
        if env[k] is not None:
            e[var] = env[k]
    if env["heap"] is not None:
        e["SIMHEAP_SEED"] = str(env["heap"])
        if env.get("fill") is not None:
            e["SIMHEAP_FILL"] = str(env["fill"])       # malloc'ed blocks arrive full of this byte instead of zeroes
    return e


def run_once(steps, env, root, ref=None):
    link = None
    if env.get("cwd") == "symlink":
        link = root + ".lnk"
        if os.path.islink(link):
            os.unlink(link)
        os.symlink(root, link)
    try:
        return _run_once(steps, env, root, ref, link)
    finally:
        if link and os.path.islink(link):
            os.unlink(link)


def _run_once(steps, env, root, ref, link):
    """One execution of all steps of a job under one environment.  Returns
    (outputs {step/ch: bytes|None}, info)."""
    outputs, info = {}, {"outcomes": [], "clock_reads": 0, "heap": None, "ids": {}}
    e = _env_dict(env)
    cwd = link or root
    if env.get("pwd") == "logical":
        e["PWD"] = cwd
    elif env.get("pwd") == "physical":
        e["PWD"] = root
    elif env.get("pwd") == "bogus":
        e["PWD"] = "/nonexistent/elsewhere"
    for v in env.get("vars", []):
        e[v] = os.path.join(root, "decoy")       # an existing but irrelevant directory
    os.makedirs(os.path.join(root, "decoy"), exist_ok=True)
    preload = []
    if env["heap"] is not None:
        preload.append(build.shim("simheap"))
        e["SIMHEAP_TRACE"] = root + ".heap"
    for name, job in steps:
        common.materialise(job, root)
        if env["stale"]:
            for ch, rel in job["outputs"].items():
                prev = (ref or {}).get("%s/%s" % (name, ch))
                if env["stale"] == "tail" and prev:
                    # an earlier run's output of the same length that differs only near its end
                    data = prev.replace(b"$W", root.encode())
                    tail = bytes((b ^ 0x01) if 48 <= b <= 122 else b for b in data[-12:])
                    data = data[:-12] + tail
                elif env["stale"] == "short":
                    data = b"STALE OUTPUT OF AN EARLIER RUN\n"
                else:
                    data = b"STALE OUTPUT OF AN EARLIER RUN\n" * 20000
                with open(os.path.join(root, rel), "wb") as f:
                    f.write(data)
        exe = build.tool("rel", job["tool"])
        argv = [exe] + job["argv"]
        if not env["aslr"]:
            argv = ["/usr/bin/setarch", "x86_64", "-R"] + argv
        import subprocess
        r = runner.run_tool(argv, cwd=cwd, root=root, clock=tuple(env["clock"]), env=e, preload=preload,
                            stdin=(subprocess.PIPE if env["stdin"] == "pipe" else None))
        info["outcomes"].append(r.outcome())
        clock_vals = [ev["ret"] for ev in r.trace if ev["fault"] == "clock"]
        info["clock_reads"] += len(clock_vals)
        outs = common.collect_outputs(job, root, strict=True)
        for ch, data in outs.items():
            outputs["%s/%s" % (name, ch)] = data
        info["ids"][name] = {"clock": clock_vals}
        if r.status != 0 or r.crashed:
            break
    if env["heap"] is not None and os.path.exists(root + ".heap"):
        with open(root + ".heap") as f:
            info["heap"] = f.read().split("\n")[0]
        os.unlink(root + ".heap")
    return outputs, info


def _classify(a, b):
    if a is None or b is None:
        return "missing"
    if sorted(a.split(b"\n")) == sorted(b.split(b"\n")):
        return "order"
    return "content"


def _first_diff(a, b):
    la, lb = a.split(b"\n"), b.split(b"\n")
    for i, (x, y) in enumerate(zip(la, lb)):
        if x != y:
            return "line %d: %r vs %r" % (i + 1, x[:90], y[:90])
    return "length %d vs %d lines" % (len(la), len(lb))


def execute(plan):
    steps = job_from_spec(plan["spec"])
    violations, harness_faults = [], []
    ref = None
    ref_raw = None
    perturbed = 0
    heaps = set()
    clock_reads = 0
    clock_lo, clock_hi = None, None
    digests = []
    sde_val = epoch_value(plan["envs"][0]["sde"])
    for xi, env in enumerate(plan["envs"]):
        root = runner.fresh_dir("rp-%07d-%016x-%d" % (os.getpid(), fnv1a(json.dumps(plan["spec"], sort_keys=True)), xi))
        outputs, info = run_once(steps, env, root, ref_raw)
        common.cleanup(root)
        clock_reads += info["clock_reads"]
        if any(not o.startswith("exit:0") for o in info["outcomes"]):
            if xi == 0:
                harness_faults.append("reference execution of %s failed: %s" % (plan["spec"], info["outcomes"]))
                break
            violations.append({"property": "C14", "class": "outcome-differs", "key": {"kind": "outcome", "tool": "interrogate"},
                               "msg": "job %s: execution under env %s ended %s while the reference succeeded" % (plan["spec"], env, info["outcomes"])})
            continue
        if info["heap"]:
            heaps.add(info["heap"])
        # identifier handling
        norm = {}
        for key, data in outputs.items():
            if data is None:
                norm[key] = None
                continue
            step, ch = key.split("/")
            if step == "mod":
                norm[key] = data
                continue
            ident = None
            if ch == "od":
                first, _, rest = data.partition(b"\n")
                ident = first
                data2 = b"%d\n" % sde_val + rest
            elif ch == "oc":
                m = ID_LINE.search(data)
                if m:
                    ident = m.group(1)
                    data2 = data[:m.start(1)] + (b"%d" % sde_val) + data[m.end(1):]
                else:
                    data2 = data
            else:
                data2 = data
            if ident is not None:
                info["ids"][step].setdefault("seen", {})[ch] = ident.decode("latin-1")
                if env["sde"] is not None:
                    if ident != b"%d" % sde_val:
                        violations.append({"property": "C14", "class": "identifier", "key": {"kind": "identifier-not-epoch", "channel": ch},
                                           "msg": "job %s: SOURCE_DATE_EPOCH=%s but -%s carries identifier %r" % (plan["spec"], env["sde"], ch, ident)})
                else:
                    vals = [str(v) for v in info["ids"][step]["clock"]]
                    if ident.decode("latin-1") not in vals:
                        violations.append({"property": "C14", "class": "identifier", "key": {"kind": "identifier-not-from-clock", "channel": ch},
                                           "msg": "job %s: -%s identifier %r is not a value the simulated clock returned in that run (%s)" % (plan["spec"], ch, ident, vals[:5])})
            norm[key] = data2 if env["sde"] is None else data
        for step, d in info["ids"].items():
            seen = d.get("seen", {})
            if "oc" in seen and "od" in seen and seen["oc"] != seen["od"]:
                violations.append({"property": "C14", "class": "identifier", "key": {"kind": "identifier-code-vs-database"},
                                   "msg": "job %s step %s: code file carries identifier %s, database %s" % (plan["spec"], step, seen["oc"], seen["od"])})
        for v in info["ids"].values():
            for c in v["clock"]:
                clock_lo = c if clock_lo is None else min(clock_lo, c)
                clock_hi = c if clock_hi is None else max(clock_hi, c)
        # the run hash must not depend on the scratch path even when a defect leaks it into an output
        digests.append({k: (runner.sha(v.replace(root.encode(), b"$W")) if v is not None else None) for k, v in sorted(norm.items())})
        if xi == 0:
            ref = norm
            ref_raw = outputs
            continue
        if env["heap"] is not None or not env["aslr"] or env["junk"] or env["stale"] or env["sde"] is None:
            perturbed += 1
        for key in sorted(ref):
            if norm.get(key) != ref[key]:
                step, ch = key.split("/")
                kind = _classify(ref[key], norm.get(key))
                if env["stale"] and norm.get(key) is not None and ref.get(key) is not None and (
                        b"STALE OUTPUT" in norm[key] or (len(norm[key]) == len(ref[key]) and norm[key][:-12] == ref[key][:-12])):
                    kind = "stale"      # the output still carries bytes of the file that was there before
                tool = "interrogate_module" if step == "mod" else "interrogate"
                backend = plan["spec"]["backend"]
                violations.append({
                    "property": "C14", "class": "output-differs",
                    "key": {"tool": tool, "channel": ch, "kind": kind, "backend": backend},
                    "msg": "job %s: -%s of step %s differs from the reference execution (%s; %s) under env %s" %
                           (json.dumps(plan["spec"], sort_keys=True), ch, step, kind,
                            _first_diff(ref[key], norm[key]) if norm.get(key) is not None else "missing", json.dumps(env, sort_keys=True))})
    # one violation per key is enough for a run
    seen, uniq = set(), []
    for v in violations:
        k = json.dumps(v["key"], sort_keys=True)
        if k not in seen:
            seen.add(k)
            uniq.append(v)
    abstract = "%s|%s|%s|heaps=%d|%s" % (plan["spec"]["kind"], plan["spec"]["backend"], ",".join(sorted(plan["spec"].get("opts", []))),
                                        len(heaps), ",".join(sorted(json.dumps(v["key"], sort_keys=True) for v in uniq)) or "same")
    h = runner.sha(json.dumps([plan, digests], sort_keys=True))
    return {"violations": uniq, "harness_faults": harness_faults, "abstract": abstract, "hash": h,
            "nontrivial": perturbed > 0 and len(heaps) > 0, "executions": len(plan["envs"]), "perturbed": perturbed,
            "heaps": sorted(heaps), "clock_reads": clock_reads, "clock_span": [clock_lo, clock_hi]}


def shrink(plan, fails):
    best = plan
    # two environments suffice: the reference and one that disagrees
    if len(best["envs"]) > 2:
        for i in range(1, len(best["envs"])):
            cand = dict(best, envs=[best["envs"][0], best["envs"][i]])
            if fails(cand):
                best = cand
                break
    # neutralise environment dimensions one at a time
    if len(best["envs"]) == 2:
        neutral = gen_env(None, first=True, sde=best["envs"][0]["sde"])
        for k in sorted(neutral):
            if best["envs"][1][k] != neutral[k]:
                e2 = dict(best["envs"][1])
                e2[k] = neutral[k]
                cand = dict(best, envs=[best["envs"][0], e2])
                if fails(cand):
                    best = cand
    # fewer options, smaller header
    spec = best["spec"]
    for o in list(spec.get("opts", [])):
        s2 = dict(spec, opts=[x for x in spec["opts"] if x != o])
        cand = dict(best, spec=s2)
        if fails(cand):
            best, spec = cand, s2
    if spec["kind"] == "gen":
        for n in range(1, spec["n_classes"]):
            cand = dict(best, spec=dict(spec, n_classes=n))
            if fails(cand):
                best = cand
                break
    return best


def coverage(ctx, plans, results):
    execs = sum(r["executions"] for r in results)
    heaps = set()
    lo = hi = None
    for r in results:
        heaps.update(r["heaps"])
        a, b = r["clock_span"]
        if a is not None:
            lo = a if lo is None else min(lo, a)
            hi = b if hi is None else max(hi, b)
    inv = []
    for h in heaps:
        m = re.search(r"allocs=(\d+) inversions=(\d+)", h)
        if m and int(m.group(1)):
            inv.append(int(m.group(2)) / min(int(m.group(1)), 65536))
    abstracts = set(r["abstract"] for r in results if r["nontrivial"])
    return {
        "evaluations": execs,
        "jobs": len(plans),
        "distinct_nontrivial": len(heaps),
        "rule": "one job = fixed argv over a fixture or seeded header set (or the 3-library pipeline ending in interrogate_module); it is executed R times, "
                "each under an independently drawn environment (heap seed for the scatter allocator, ASLR on/off, simulated clock base/step, SOURCE_DATE_EPOCH set or not, "
                "0-200 junk variables, TZ, LANG/LC_ALL/LC_NUMERIC, HOME, stale files at the output paths, stdin); evaluations counts tool executions; "
                "distinct_nontrivial counts executions whose heap layout was measurably different, i.e. distinct (allocation count, address-order inversions, region-choice signature) "
                "triples reported by the allocator itself",
        "samples": [plans[0], plans[len(plans) // 2]],
        "exhaustive": False,
        "perturbed_executions": sum(r["perturbed"] for r in results),
        "distinct_heap_layouts": len(heaps),
        "mean_fraction_of_address_order_inversions_under_scatter_heap": round(sum(inv) / len(inv), 3) if inv else None,
        "clock_reads_observed": sum(r["clock_reads"] for r in results),
        "simulated_time_covered": "simulated clock values handed out span [%s, %s] seconds since the epoch (the clock only feeds the file identifier)" % (lo, hi),
        "distinct_interleavings_measure": "distinct (job kind, backend, options, verdict) tuples with a perturbed heap: %d" % len(abstracts),
        "faults_injected": "none (environment/schedule perturbation only); stale-output pre-placement counted in perturbed_executions",
    }


class Cov:
    def __init__(self, ctx):
        self.ctx, self.plans, self.results = ctx, [], []

    def add(self, plan, result):
        self.plans.append(plan)
        self.results.append(result)

    def finish(self):
        return coverage(self.ctx, self.plans, self.results)

"""Reference model of the merged interrogate database (DESIGN.md C13):
disjoint union of the loaded libraries in which types with equal non-empty
true name are identified; index-free comparison by colour refinement."""
import copy
import hashlib

from . import idb_format as F

KINDS = F.SECTIONS
STRIDE = 10_000_000


def loader_normalise(db):
    """What the loader documents in its source: a function listed as a type's
    constructor / destructor gets the corresponding role flag.  Applied per file."""
    db = copy.deepcopy(db)
    for t in db["types"].values():
        if t["destructor"] != 0 and t["destructor"] in db["functions"]:
            db["functions"][t["destructor"]]["flags"] |= F.FF_DESTRUCTOR
        for c in t["constructors"]:
            if c in db["functions"]:
                db["functions"][c]["flags"] |= F.FF_CONSTRUCTOR
    return db


def _refs(kind, rec):
    """Yields (label, index) for every index reference of a record."""
    single, multi = F.INDEX_FIELDS[kind]
    for f in single:
        yield f, rec[f]
    for f in multi:
        for i, v in enumerate(rec[f]):
            yield "%s[%d]" % (f, i), v
    if kind == "wrappers":
        for i, p in enumerate(rec["parameters"]):
            yield "param[%d]" % i, p["type"]
    if kind == "types":
        for i, d in enumerate(rec["derivations"]):
            yield "deriv[%d].base" % i, d["base"]
            yield "deriv[%d].up" % i, d["upcast"]
            yield "deriv[%d].down" % i, d["downcast"]


def _map_refs(kind, rec, fn):
    """Returns a copy of rec with every index reference passed through fn."""
    r = copy.deepcopy(rec)
    single, multi = F.INDEX_FIELDS[kind]
    for f in single:
        r[f] = fn(r[f])
    for f in multi:
        r[f] = [fn(v) for v in r[f]]
    if kind == "wrappers":
        for p in r["parameters"]:
            p["type"] = fn(p["type"])
    if kind == "types":
        for d in r["derivations"]:
            d["base"] = fn(d["base"])
            d["upcast"] = fn(d["upcast"])
            d["downcast"] = fn(d["downcast"])
    return r


def _scalars(kind, rec):
    """The record's own (non-reference) content, as a hashable tuple."""
    single, multi = F.INDEX_FIELDS[kind]
    out = []
    for k in sorted(rec):
        if k in single or k in multi:
            continue
        v = rec[k]
        if k == "parameters":
            v = tuple((p["name"], p["flags"]) for p in v)
        elif k == "derivations":
            v = tuple(d["flags"] for d in v)
        elif k == "enum_values":
            v = tuple((e["name"], e["scoped_name"], e["comment"], e["value"]) for e in v)
        elif isinstance(v, list):
            v = tuple(v)
        out.append((k, v))
    return tuple(out)


class Combined:
    """A database-like structure: recs[kind][index] = record, owner[(kind,index)] = (library, module)."""

    def __init__(self):
        self.recs = {k: {} for k in KINDS}
        self.owner = {}

    def entities(self):
        for k in KINDS:
            for i in self.recs[k]:
                yield k, i

    def kind_of(self, idx):
        for k in KINDS:
            if idx in self.recs[k]:
                return k
        return None


def combine(libs, choose=None):
    """libs: list of (tag, parsed db) in any order.  Builds the merged model.

    Types with equal non-empty true name (and non-empty name) from different
    libraries are identified.  The merged node is one candidate in its entirety:
    the candidate of best rank (see rank() below; independent of the load order);
    among candidates of exactly equal rank `choose(true_name, candidates)` picks
    (default: the first), where candidates = [(lib position, record)].  The global flag is the union.
    Returns (Combined, classes) with classes = {true_name: [(gidx, fully_defined, is_global)]}."""
    c = Combined()
    gmap = {}
    for li, (tag, db) in enumerate(libs):
        for k in KINDS:
            for idx in db[k]:
                gmap[(li, idx)] = (li + 1) * STRIDE + idx

    def g(li):
        return lambda v: 0 if v == 0 else gmap.get((li, v), -(li + 1) * STRIDE - v)   # negative = dangling

    classes = {}
    for li, (tag, db) in enumerate(libs):
        db = loader_normalise(db)
        owner = (db["library_name"], db["module_name"])
        for k in KINDS:
            for idx, rec in db[k].items():
                gi = gmap[(li, idx)]
                c.recs[k][gi] = _map_refs(k, rec, g(li))
                c.owner[(k, gi)] = owner
                if k == "types" and rec["true_name"]:        # identified by true name, whatever the short name
                    classes.setdefault(rec["true_name"], []).append(gi)
    redirect = {}
    info = {}
    for tn, members in classes.items():
        if len(members) < 2:
            continue
        # The winner is a function of the set of definitions, not of the load order ("in any order"):
        # fully defined beats not fully defined; of fully defined ones, one that is itself global beats one that is not;
        # of definitions that are not fully defined, one that records base classes beats one that does not, then one
        # marked unpublished beats a bare reference; remaining ties go to the smaller (library name, module name).
        def rank(m):
            r = c.recs["types"][m]
            fd = bool(r["flags"] & F.TF_FULLY_DEFINED)
            own = c.owner[("types", m)]
            if fd:
                return (0, 0 if r["flags"] & F.TF_GLOBAL else 1, 0, own[0] or b"", own[1] or b"")
            return (1, 0 if r["derivations"] else 1, 0 if r["flags"] & F.TF_UNPUBLISHED else 1, own[0] or b"", own[1] or b"")
        best = min(rank(m) for m in members)
        pool = [m for m in members if rank(m) == best]
        if len(pool) == 1:
            win = pool[0]
        else:
            # same library and module name twice: the code keeps the one loaded first
            cands = [(m // STRIDE - 1, c.recs["types"][m]) for m in pool]
            pick = choose(tn, cands) if choose else 0
            win = pool[pick if pick is not None else 0]
        glob = any(c.recs["types"][m]["flags"] & F.TF_GLOBAL for m in members)
        info[tn] = {"members": members, "winner": win, "ambiguous": len(pool) > 1, "pool": pool}
        if glob:
            c.recs["types"][win]["flags"] |= F.TF_GLOBAL
        for m in members:
            if m != win:
                redirect[m] = win
    if redirect:
        for m in redirect:
            del c.recs["types"][m]
            del c.owner[("types", m)]
        fn = lambda v: redirect.get(v, v)
        for k in KINDS:
            for idx in list(c.recs[k]):
                c.recs[k][idx] = _map_refs(k, c.recs[k][idx], fn)
    return c, info


def from_dump(db, owners):
    """Wraps a parsed dump of the real database (merged indices) as a Combined.
    owners: {(kind, index): (library, module)} as reported by the query interface
    (only functions and types have owner accessors; others get None)."""
    c = Combined()
    for k in KINDS:
        for idx, rec in db[k].items():
            c.recs[k][idx] = rec
            c.owner[(k, idx)] = owners.get((k, idx))
    return c


def _h(*parts):
    m = hashlib.blake2b(digest_size=12)
    m.update(repr(parts).encode("utf-8", "surrogateescape"))
    return m.hexdigest()


def colours(c, rounds=3, use_owner=True):
    """Colour refinement.  Returns {(kind, index): colour}."""
    col = {}
    for k, i in c.entities():
        own = c.owner.get((k, i)) if (use_owner and k in ("functions", "types")) else None
        col[(k, i)] = _h(k, _scalars(k, c.recs[k][i]), own)
    for _ in range(rounds):
        new = {}
        for k, i in c.entities():
            parts = []
            for label, v in _refs(k, c.recs[k][i]):
                if v == 0:
                    parts.append((label, "none"))
                else:
                    tk = c.kind_of(v)
                    parts.append((label, col[(tk, v)] if tk else "dangling"))
            new[(k, i)] = _h(col[(k, i)], tuple(parts))
        col = new
    return col


def multiset(col, keys=None):
    out = {}
    for key, v in col.items():
        if keys is not None and key not in keys:
            continue
        out[v] = out.get(v, 0) + 1
    return out


def diff_multisets(a, b):
    """Returns (only_in_a, only_in_b) as {colour: count}."""
    oa = {k: v - b.get(k, 0) for k, v in a.items() if v > b.get(k, 0)}
    ob = {k: v - a.get(k, 0) for k, v in b.items() if v > a.get(k, 0)}
    return oa, ob

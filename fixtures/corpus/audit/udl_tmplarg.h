int operator "" _x(long double);
template<int N> struct S{};
S<-5_x> s;

template<class... Ts> struct Tup;
template<> struct Tup<> { };
template<class H, class... Ts> struct Tup<H, Ts...> : Tup<Ts...> {
__published:
  Tup();
  H head;
};
typedef Tup<int, float> TupIF;
__begin_publish
TupIF *make_tup();
__end_publish

#!/bin/bash
# tools/recheck_mutants.sh [lanes] [ids...]
# Re-confirms every kept seeded defect against the current /repo HEAD: patch applies, builds, suite passes,
# demo distinguishes, ./check <property> (quick) reports a violation.  Summary in seeded/recheck.log.
# Uses scratch worktrees /tmp/wt-mut-<lane> (removed at the end) and per-worktree build dirs under /verif/build.
set -u
cd /verif
LANES=${1:-2}; shift || true
IDS=("$@")
if [ ${#IDS[@]} -eq 0 ]; then IDS=($(ls seeded | grep -E '^C[0-9]+-m[0-9]+$' | sort -V)); fi
: > seeded/recheck.log
lane() {
  local L=$1; shift
  local WT=/tmp/wt-mut-$L
  git -C /repo worktree add -f --detach "$WT" HEAD -q 2>/dev/null
  for id in "$@"; do
    local P=${id%%-*}
    local out
    out=$(bash tools/mutant.sh "$P" "/verif/seeded/$id" "$WT" quick 2>&1 | tail -1)
    echo "$out" >> seeded/recheck.log
  done
  git -C /repo worktree remove --force "$WT"
  # the out-of-tree builds of that worktree (build/<kind>-<sha1(path)[:8]>, reused incrementally across its mutants)
  h=$(python3 -c "import hashlib,sys;print(hashlib.sha1(sys.argv[1].encode()).hexdigest()[:8])" "$WT")
  rm -rf /verif/build/rel-$h /verif/build/san-$h /verif/build/build-rel-$h.log /verif/build/build-san-$h.log
}
for ((l=0; l<LANES; l++)); do
  sel=()
  for ((i=l; i<${#IDS[@]}; i+=LANES)); do sel+=("${IDS[$i]}"); done
  lane $l "${sel[@]}" &
done
wait
sort -V seeded/recheck.log

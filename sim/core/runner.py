"""Process execution under the simulated OS, scratch trees, worker pool."""
import atexit
import hashlib
import os
import resource
import shutil
import signal
import subprocess
import time
from concurrent.futures import ProcessPoolExecutor

from . import build

SCRATCH_BASE = "/dev/shm" if os.path.isdir("/dev/shm") and os.access("/dev/shm", os.W_OK) else os.path.join(build.VERIF, "scratch")
_scratch_root = None

WALL_LIMIT = 20.0
ASAN_EXIT = 77
ASAN_OPTIONS = "exitcode=77:detect_leaks=0:abort_on_error=0:allocator_may_return_null=1:detect_stack_use_after_return=0:symbolize=1"
UBSAN_OPTIONS = "print_stacktrace=1:exitcode=77"


def scratch_root():
    """Per-check-process scratch root, removed at exit."""
    global _scratch_root
    if _scratch_root is None and os.environ.get("VERIF_SCRATCH_ROOT"):
        _scratch_root = os.environ["VERIF_SCRATCH_ROOT"]
    if _scratch_root is None:
        _scratch_root = os.path.join(SCRATCH_BASE, "verif-%07d" % os.getpid())
        os.environ["VERIF_SCRATCH_ROOT"] = _scratch_root
        shutil.rmtree(_scratch_root, ignore_errors=True)
        os.makedirs(_scratch_root)
        owner = os.getpid()

        def _cleanup():
            if os.getpid() == owner:
                shutil.rmtree(_scratch_root, ignore_errors=True)
        atexit.register(_cleanup)
    return _scratch_root


def fresh_dir(name):
    d = os.path.join(scratch_root(), name)
    shutil.rmtree(d, ignore_errors=True)
    os.makedirs(d)
    return d


def sha(data):
    if isinstance(data, str):
        data = data.encode("utf-8", "surrogateescape")
    return hashlib.sha1(data).hexdigest()[:16]


def read_file(path):
    if not os.path.isfile(path):    # missing, a directory, or a device such as /dev/full
        return None
    try:
        with open(path, "rb") as f:
            return f.read()
    except (FileNotFoundError, IsADirectoryError, NotADirectoryError):
        return None


class ProcResult:
    __slots__ = ("status", "signal", "timeout", "stdout", "stderr", "trace", "wall", "sanitizer")

    def __init__(self):
        self.status = None
        self.signal = None
        self.timeout = False
        self.stdout = b""
        self.stderr = b""
        self.trace = []
        self.wall = 0.0
        self.sanitizer = None

    @property
    def crashed(self):
        """Death by signal, sanitizer report, std::terminate or hang."""
        return self.signal is not None or self.timeout or self.sanitizer is not None

    def outcome(self):
        if self.timeout:
            return "timeout"
        if self.sanitizer:
            return "sanitizer:" + self.sanitizer
        if self.signal is not None:
            return "signal:%s" % signal.Signals(self.signal).name
        return "exit:%d" % self.status


def _limits():
    resource.setrlimit(resource.RLIMIT_CPU, (30, 35))
    resource.setrlimit(resource.RLIMIT_CORE, (0, 0))
    # 4 GiB of address space is plenty for the plain builds; ASan needs its shadow.


def parse_trace(text):
    ev = []
    for line in text.splitlines():
        p = line.split(" ", 6)
        if len(p) < 7:
            continue
        ev.append({"seq": int(p[0]), "op": p[1], "path": p[2], "req": int(p[3]), "ret": int(p[4]), "err": p[5], "fault": p[6]})
    return ev


FAULT_TAGS = ("open-fail", "write-fail", "write-failonce", "write-fail-sticky", "write-short-then-fail", "write-shortok",
              "write-eintr", "close-fail", "read-fail", "read-eintr", "read-chunk")


def fired_faults(trace):
    """Counts, per fault tag, the injected faults that actually fired in a SimOS trace."""
    fired = {}
    for ev in trace:
        if ev["fault"] in FAULT_TAGS:
            fired[ev["fault"]] = fired.get(ev["fault"], 0) + 1
    return fired


def classify_sanitizer(stderr):
    s = stderr.decode("utf-8", "replace")
    if "ERROR: AddressSanitizer" in s:
        i = s.index("ERROR: AddressSanitizer")
        kind = s[i + 24:i + 80].split()[0] if len(s) > i + 24 else "asan"
        return "asan-" + kind.strip(":")
    if "runtime error:" in s:
        i = s.index("runtime error:")
        return "ubsan-" + "-".join(s[i + 15:i + 60].split()[:3])
    if "Assertion" in s and "_GLIBCXX" in s or "__glibcxx_assert" in s or "glibcxx_assert_fail" in s:
        return "glibcxx-assert"
    return None


ARITH_UBSAN = ("signed integer overflow", "shift exponent", "left shift", "outside the range of representable values")


def run_tool(argv, cwd, root=None, plan=None, clock=None, env=None, san=False, preload=(), stdin=None, wall=WALL_LIMIT, confirm_timeout=True):
    """See _run_tool.  A run that exceeds the wall limit is executed once more with three times the limit before it
    counts as a hang: the limit exists to detect non-termination, not slowness on a loaded machine."""
    r = _run_tool(argv, cwd, root, plan, clock, env, san, preload, stdin, wall)
    if r.signal == signal.SIGKILL and not r.timeout:
        # SIGKILL that is not our own wall-limit kill comes from outside the simulation (the kernel's out-of-memory killer
        # on an overloaded machine; the tools never send it and the CPU limit arrives as SIGXCPU): not an outcome of the
        # tool -- run once more
        r = _run_tool(argv, cwd, root, plan, clock, env, san, preload, stdin, wall)
    if r.timeout and confirm_timeout and r.signal != signal.SIGXCPU:
        r2 = _run_tool(argv, cwd, root, plan, clock, env, san, preload, stdin, wall * 3)
        return r2
    return r


def _run_tool(argv, cwd, root=None, plan=None, clock=None, env=None, san=False, preload=(), stdin=None, wall=WALL_LIMIT):
    """Runs one real tool process under the SimOS shim.

    root   scratch tree the shim acts on (None: shim inactive)
    plan   list of rule strings (see simos.c)
    clock  (base, step) or None
    env    complete environment for the child (defaults to a minimal one)
    """
    e = {"PATH": "/usr/bin:/bin", "LC_ALL": "C"} if env is None else dict(env)
    pre = []
    if san:
        pre.append(_libasan())
        e.setdefault("ASAN_OPTIONS", ASAN_OPTIONS)
        e.setdefault("UBSAN_OPTIONS", UBSAN_OPTIONS)
    pre.extend(preload)
    trace_path = None
    if root is not None:
        pre.append(build.shim("simos"))
        e["SIMOS_ROOT"] = root
        trace_path = os.path.join(os.path.dirname(root.rstrip("/")), os.path.basename(root.rstrip("/")) + ".trace")
        if os.path.exists(trace_path):
            os.unlink(trace_path)
        e["SIMOS_TRACE"] = trace_path
        if plan:
            e["SIMOS_PLAN"] = ";".join(plan)
        if clock is not None:
            e["SIMOS_CLOCK"] = "%d:%d" % clock
    if pre:
        e["LD_PRELOAD"] = ":".join(pre)
    r = ProcResult()
    t0 = time.monotonic()
    p = subprocess.Popen(argv, cwd=cwd, env=e, stdin=stdin if stdin is not None else subprocess.DEVNULL,
                         stdout=subprocess.PIPE, stderr=subprocess.PIPE, preexec_fn=_limits, close_fds=True)
    r.stdout, r.stderr, r.timeout = _drain(p, wall * (3 if san else 1))
    r.wall = time.monotonic() - t0
    rc = p.returncode
    if rc < 0:
        r.signal = -rc
        if r.signal == signal.SIGXCPU:
            r.timeout = True
    else:
        r.status = rc
    if san:
        if rc == ASAN_EXIT or b"ERROR: AddressSanitizer" in r.stderr:
            r.sanitizer = classify_sanitizer(r.stderr) or "unknown"
        elif b"runtime error:" in r.stderr:
            # recoverable (arithmetic) UBSan classes are counted, not a verdict
            txt = r.stderr.decode("utf-8", "replace")
            lines = [l for l in txt.splitlines() if "runtime error:" in l]
            if any(not any(a in l for a in ARITH_UBSAN) for l in lines):
                r.sanitizer = classify_sanitizer(r.stderr)
    if trace_path and os.path.exists(trace_path):
        with open(trace_path, "r", errors="replace") as f:
            r.trace = parse_trace(f.read())
        os.unlink(trace_path)
    return r


OUTPUT_CAP = 48 << 20
LAST_HANG_STACK = ""


def _hang_stack(pid):
    """Innermost repository frames of a process that is about to be killed for not terminating
    (diagnostic text for the violation message only; never part of a violation key or run hash)."""
    try:
        out = subprocess.run(["gdb", "-p", str(pid), "-batch", "-ex", "bt 40"], capture_output=True, text=True, timeout=15).stdout
    except Exception:
        return ""
    import re
    fns = []
    for line in out.splitlines():
        m = re.match(r"#\d+\s+(?:0x[0-9a-f]+ in )?([\w:~<>]+) \(.*\) at (\S+):(\d+)", line)
        if m and "/src/" in m.group(2):
            fns.append("%s (%s:%s)" % (m.group(1), os.path.basename(m.group(2)), m.group(3)))
    return " <- ".join(fns[:6])


def _drain(p, wall):
    """Collects stdout/stderr with a wall-clock limit and an output cap (a tool that floods diagnostics
    forever is a hang, and must not exhaust the harness's memory).  Returns (stdout, stderr, timed_out)."""
    import selectors
    sel = selectors.DefaultSelector()
    bufs = {p.stdout: [], p.stderr: []}
    sizes = {p.stdout: 0, p.stderr: 0}
    for f in bufs:
        os.set_blocking(f.fileno(), False)
        sel.register(f, selectors.EVENT_READ)
    deadline = time.monotonic() + wall
    timed_out = False
    open_n = 2
    while open_n:
        left = deadline - time.monotonic()
        if left <= 0 or max(sizes.values()) > OUTPUT_CAP:
            timed_out = True
            global LAST_HANG_STACK
            LAST_HANG_STACK = _hang_stack(p.pid)
            p.kill()
            break
        for key, _ in sel.select(min(left, 1.0)):
            f = key.fileobj
            try:
                chunk = os.read(f.fileno(), 1 << 16)
            except BlockingIOError:
                continue
            if not chunk:
                sel.unregister(f)
                open_n -= 1
            else:
                sizes[f] += len(chunk)
                if sizes[f] <= OUTPUT_CAP + (1 << 16):
                    bufs[f].append(chunk)
    p.wait()
    for f in bufs:
        try:
            f.close()
        except OSError:
            pass
    return b"".join(bufs[p.stdout]), b"".join(bufs[p.stderr]), timed_out


_asan_path = None


def _libasan():
    global _asan_path
    if _asan_path is None:
        out = subprocess.run(["gcc", "-print-file-name=libasan.so"], capture_output=True, text=True).stdout.strip()
        _asan_path = os.path.realpath(out)
    return _asan_path


def libubsan():
    out = subprocess.run(["gcc", "-print-file-name=libubsan.so"], capture_output=True, text=True).stdout.strip()
    return os.path.realpath(out)


class Pool:
    """Ordered parallel map over forked workers; results do not depend on the worker count."""

    def __init__(self, jobs):
        self.jobs = jobs
        self.pool = None
        if jobs > 1:
            import multiprocessing
            self.pool = multiprocessing.get_context("fork").Pool(jobs)

    def map(self, fn, items):
        items = list(items)
        if self.pool is None or len(items) <= 1:
            return [fn(x) for x in items]
        chunk = max(1, min(64, len(items) // (self.jobs * 4) or 1))
        return self.pool.map(fn, items, chunksize=chunk)

    def close(self):
        if self.pool is not None:
            self.pool.close()
            self.pool.join()
            self.pool = None

// A single header exercising most record kinds of the database.
#define RICH_INT 42
#define RICH_STR "a string with spaces"
#define RICH_EXPR (RICH_INT * 2 + 1)
#define RICH_FUNC(x) ((x) + 1)
#define RICH_EMPTY

namespace ns {
  enum class Scoped : unsigned char {
    first = 1,
    second,
  };

  class Inner {
  __published:
    Inner();
    /**
     * A documented method.
     * With "quotes" and a \ backslash.
     */
    int documented(int a, int b = 2, const char *c = "de\"f");
    static Inner *create();
    Scoped get_scoped() const;
    class Nested {
    __published:
      int nested_value;
      Nested();
    };
    Nested get_nested() const;
  };
}

template<class T>
class Holder {
__published:
  Holder();
  T get() const;
  void set(T value);
};
typedef Holder<int> HolderInt;
typedef Holder<double> HolderDouble;

class Vec {
__published:
  Vec();
  Vec(float x, float y);
  Vec(const Vec &copy);
  float operator [](int i) const;
  float &operator [](int i);
  Vec operator +(const Vec &o) const;
  Vec &operator +=(const Vec &o);
  bool operator ==(const Vec &o) const;
  operator bool() const;
  int size() const;
  float get_x() const;
  void set_x(float x);
  __make_property(x, get_x, set_x);
  int get_num_cells() const;
  float get_cell(int n) const;
  __make_seq(get_cells, get_num_cells, get_cell);

  void over(int a);
  void over(long a);
  void over(unsigned a);
  void over(short a);
  void over(bool a);
  void over(char a);
  void over(float a);
  void over(double a);
  void over(const char *a);
  void over(const Vec &a);
  void over(Vec *a, int b = 0);

  static const int dimension = 2;
  static Vec *origin;
  int public_member;
};

union Un {
__published:
  int i;
  float f;
};

__published:
int rich_function(const Vec &v, ns::Inner *inner = nullptr);
const char *rich_string();
extern double rich_variable;
extern const int rich_constant;

"""ddmin over plan items + caller-supplied simplifications, restricted to one
violation class."""


def ddmin(items, fails, budget=200):
    """Smallest sublist (1-minimal within budget) of `items` for which fails(sublist) is true.
    `fails` must be deterministic.  Assumes fails(items) is true."""
    n = 2
    items = list(items)
    calls = 0
    while len(items) >= 2 and calls < budget:
        chunk = max(1, len(items) // n)
        subsets = [items[i:i + chunk] for i in range(0, len(items), chunk)]
        reduced = False
        for i in range(len(subsets)):
            comp = [x for j, s in enumerate(subsets) if j != i for x in s]
            calls += 1
            if comp and fails(comp):
                items = comp
                n = max(n - 1, 2)
                reduced = True
                break
            if calls >= budget:
                break
        if not reduced:
            if n >= len(items):
                break
            n = min(len(items), n * 2)
    return items


def greedy(plan, candidates, fails, budget=200):
    """Repeatedly replaces plan by the first candidate(plan) that still fails."""
    calls = 0
    progress = True
    while progress and calls < budget:
        progress = False
        for cand in candidates(plan):
            calls += 1
            if fails(cand):
                plan = cand
                progress = True
                break
            if calls >= budget:
                break
    return plan

__begin_publish
extern int arr[];
extern const char *names[];
int use_arr(int n);
__end_publish

// Library C: derives from B and A (diamond-ish), plus a typedef edge.
#ifndef C_H
#define C_H
#include "b.h"

class CLeaf : public BDerived {
__published:
  CLeaf();
  double measure(double scale = 2.0) const;
  void visit(ABase &base, BStandalone *standalone);
};

class CMix : public ABase, public BStandalone {
__published:
  CMix();
  int mix() const;
};

typedef AOther COtherAlias;

__published:
void c_free_function(CLeaf *leaf, const CMix &mix);
#endif

template<class T> struct B { struct In { T v; }; typedef T VT; enum Color { red }; template<class U> struct Re { U u; }; };
template<class T> struct D : B<T> { using B<T>::In; using B<T>::Color; In *p; };
struct E : B<int> { using B<int>::In; using B<int>::Color; In q; Color c; };
D<int> d; D<float> df; E e;
namespace N { struct S { struct Inner {}; }; template<class T> struct TT { T t; struct Nest { T n; }; }; }
using N::S; using N::TT;
S::Inner si; TT<int> ti; TT<S>::Nest tn;
namespace M { using N::S; using N::TT; S ms; TT<long> mt; }
using M::S;
template<class T> struct W { using X = N::TT<T>; X x; };
W<int> w;
struct Self { using Self2 = Self; };
namespace R { struct Q {}; } namespace R { using R::Q; } using R::Q; using R::Q; Q qq;

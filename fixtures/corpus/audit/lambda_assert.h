static_assert([]{return true;}(), "");

int operator "" _x(const wchar_t*, unsigned long);
static_assert("abc"_x + 1, "");

#include "pre.h"
#include <string>
class ReferenceCount { PUBLISHED: void ref() const; bool unref() const; int get_ref_count() const; };
template<class T> class PointerTo { public: PointerTo(T *p = nullptr); T *p() const; };
template<class T> class ConstPointerTo { public: ConstPointerTo(const T *p = nullptr); const T *p() const; };
class TypedObject { PUBLISHED: int get_type() const; static int get_class_type(); };
class K0;
class K1;
class K2;
class K0 {
PUBLISHED:
  K0(short index0, PointerTo<K0> key, K2 key2);
  K0(double y0);
  K0();
  static std::string has_item();
  int __bool__();
  K0 & __bool__(PyTypeObject * x);
  PyObject * get_a(size_t key = 0, int value = 0, long long b2 = 0);
  const K0 * get_b(K0 *, std::string b);
  bool __invert__(std::nullptr_t b0, PointerTo<K0>) const;
  bool __invert__(PointerTo<K0> a) const;
  std::string __invert__();
  const K0 * __mod__(void * y0) const;
  const K0 * foo(char, K1 &) const;
  MAKE_SEQ_PROPERTY(p1, __invert__, get_a, foo);
};
class K1 : public ReferenceCount, public TypedObject, public K0 {
PUBLISHED:
  K1();
  std::string get_key();
  K1 & get_key();
  std::string set_a(K0 value0) const;
  size_t get_item(const K1 * x0);
  static std::string get_item();
  const K1 * get_item(PointerTo<K1>) const;
  int operator -(char c0, char y, size_t y = 0);
  size_t operator |(const std::string & key0) const;
  K1 & operator |();
  static size_t get_key(K2 & index0);
  bool get_key(bool value) const;
  K1 clear_a(const K1 & key, int y1);
  PyObject * __clear__(int * value) const;
  MAKE_SEQ_PROPERTY(p3, __clear__, __clear__, set_a, set_a, clear_a);
  MAKE_PROPERTY2(p2, set_a, get_item);
};
class K2 : public ReferenceCount, public TypedObject, public K0 {
PUBLISHED:
  K2(long long index = 2, int index1 = 0);
  double __ceil__(unsigned char x0) const;
  int __ceil__() const;
  static K2 get_key(unsigned int index = 1, bool x = 0);
  void operator >>=(K0 &) const;
  const K2 & get_a() const;
  const K2 & __releasebuffer__(ConstPointerTo<K0>, PointerTo<K2>, const K0 *);
  PyObject * __rxor__(std::nullptr_t index0, short) const;
  const K2 * __rxor__(const K0 &) const;
  const K2 * __neg__(K0 & x0, K2 c1) const;
  std::string get_a(std::nullptr_t, Py_buffer * index1) const;
  K2 & operator >=(PointerTo<K2> key, int = 2) const;
  PyObject * operator >=() const;
  K2 & __rtruediv__(void * x0);
  int clear_a(K0 & x0) const;
  int clear_a();
  MAKE_SEQ_PROPERTY(p0, __rtruediv__, get_key, __rxor__, get_key);
  MAKE_SEQ_PROPERTY(p0, __rtruediv__, get_a);
  MAKE_PROPERTY(p0, get_a);
  int _m5;
};
BEGIN_PUBLISH
int gg(void *, short index);
END_PUBLISH

/*
 * simheap.c -- seeded scatter allocator (LD_PRELOAD seam for address-space
 * layout; DESIGN.md 2.2).  Replaces malloc/free/calloc/realloc/memalign & co.
 *
 * SIMHEAP_SEED=<n> selects the layout: N_REGIONS regions are mmap'ed at
 * seeded base addresses, every allocation goes to a PRNG-chosen region with a
 * PRNG-chosen padding, so the relative address order of any two live objects
 * is a function of the seed and not of glibc's allocator.  Nothing is ever
 * freed (the tools are short batch processes).
 *
 * SIMHEAP_TRACE=<file>: at exit one line "allocs=<n> inversions=<m> sig=<hex>"
 * is appended, where inversions counts consecutive allocation pairs whose
 * address order is reversed with respect to allocation order (first 65536
 * allocations) and sig hashes the sequence of region choices.
 */
#define _GNU_SOURCE
#include <errno.h>
#include <fcntl.h>
#include <stddef.h>
#include <stdint.h>
#include <stdio.h>
#include <stdlib.h>
#include <string.h>
#include <sys/mman.h>
#include <sys/syscall.h>
#include <unistd.h>

#define N_REGIONS 8
#define REGION_SIZE (1UL << 31) /* 2 GiB of address space each, untouched pages cost nothing */
#define HDR 16

static char *g_base[N_REGIONS];
static size_t g_used[N_REGIONS];
static uint64_t g_s[2];
static int g_init;
static unsigned long g_allocs, g_inversions;
static uintptr_t g_last;
static uint64_t g_sig = 0xcbf29ce484222325ULL;
static volatile int g_lock;
static int g_fill = -1; /* SIMHEAP_FILL: byte value new (non-calloc) blocks are filled with; -1 = leave the fresh zero pages */
/* Allocation faults: requests of at least SIMHEAP_BIG bytes are counted; the SIMHEAP_FAIL_AT-th of them (and, with
 * SIMHEAP_FAIL_STICKY=1, every later one) returns NULL / ENOMEM, which operator new turns into std::bad_alloc. */
static size_t g_big_min;
static unsigned long g_big, g_fail_at, g_failed;
static int g_fail_sticky;
/* With SIMHEAP_ARM_ON_OUTPUT=1 the counting (and failing) starts only when libsimos.so reports the first attempt to
 * open an output file: what happens to memory while the *inputs* are read is another property's business. */
static int g_need_arm, g_armed;
void simheap_arm(void) { g_armed = 1; }

static uint64_t sm64(uint64_t *x) {
  uint64_t z = (*x += 0x9E3779B97F4A7C15ULL);
  z = (z ^ (z >> 30)) * 0xBF58476D1CE4E5B9ULL;
  z = (z ^ (z >> 27)) * 0x94D049BB133111EBULL;
  return z ^ (z >> 31);
}

static uint64_t rnd(void) { /* xoroshiro128+ */
  uint64_t s0 = g_s[0], s1 = g_s[1], r = s0 + s1;
  s1 ^= s0;
  g_s[0] = ((s0 << 24) | (s0 >> 40)) ^ s1 ^ (s1 << 16);
  g_s[1] = (s1 << 37) | (s1 >> 27);
  return r;
}


static void heap_init(void) {
  if (g_init) return;
  g_init = 1;
  const char *fl = getenv("SIMHEAP_FILL");
  if (fl && fl[0]) g_fill = atoi(fl) & 0xff;
  const char *bg = getenv("SIMHEAP_BIG");
  if (bg && bg[0]) g_big_min = strtoull(bg, NULL, 10);
  const char *fa = getenv("SIMHEAP_FAIL_AT");
  if (fa && fa[0]) g_fail_at = strtoul(fa, NULL, 10);
  const char *fs = getenv("SIMHEAP_FAIL_STICKY");
  g_fail_sticky = fs && fs[0] == '1';
  const char *ao = getenv("SIMHEAP_ARM_ON_OUTPUT");
  g_need_arm = ao && ao[0] == '1';
  const char *s = getenv("SIMHEAP_SEED");
  uint64_t seed = s ? strtoull(s, NULL, 10) : 1;
  uint64_t x = seed;
  g_s[0] = sm64(&x);
  g_s[1] = sm64(&x);
  /* seeded base addresses in [0x100000000000, 0x500000000000), 4 GiB apart at least */
  for (int i = 0; i < N_REGIONS; i++) {
    for (int tries = 0; tries < 64; tries++) {
      uintptr_t hint = 0x100000000000ULL + ((sm64(&x) % 0x4000) << 32);
      void *p = mmap((void *)hint, REGION_SIZE, PROT_READ | PROT_WRITE,
                     MAP_PRIVATE | MAP_ANONYMOUS | MAP_NORESERVE | MAP_FIXED_NOREPLACE, -1, 0);
      if (p != MAP_FAILED) { g_base[i] = p; break; }
    }
    if (!g_base[i]) {
      void *p = mmap(NULL, REGION_SIZE, PROT_READ | PROT_WRITE, MAP_PRIVATE | MAP_ANONYMOUS | MAP_NORESERVE, -1, 0);
      if (p == MAP_FAILED) _exit(99);
      g_base[i] = p;
    }
  }
}

static void lock(void) { while (__sync_lock_test_and_set(&g_lock, 1)) { } }
static void unlock(void) { __sync_lock_release(&g_lock); }

static void *alloc(size_t size, size_t align) {
  lock();
  heap_init();
  if (align < 16) align = 16;
  if (g_big_min && size >= g_big_min && (!g_need_arm || g_armed)) {
    g_big++;
    if (g_fail_at && (g_big == g_fail_at || (g_fail_sticky && g_big > g_fail_at))) {
      g_failed++;
      if (getenv("SIMHEAP_FAIL_TRAP")) __builtin_trap();   /* debugging aid: stop where the failing request comes from */
      errno = ENOMEM;
      unlock();
      return NULL;
    }
  }
  uint64_t r = rnd();
  int reg = (int)(r % N_REGIONS);
  size_t pad = ((r >> 8) % 16) * 16;
  void *res = NULL;
  for (int t = 0; t < N_REGIONS; t++, reg = (reg + 1) % N_REGIONS) {
    uintptr_t p = (uintptr_t)g_base[reg] + g_used[reg] + pad + HDR;
    p = (p + align - 1) & ~(uintptr_t)(align - 1);
    size_t end = (p - (uintptr_t)g_base[reg]) + size;
    if (end > REGION_SIZE) continue;
    g_used[reg] = (end + 15) & ~(size_t)15;
    ((size_t *)p)[-1] = size;
    res = (void *)p;
    break;
  }
  if (res) {
    if (g_allocs < 65536) {
      if (g_last && (uintptr_t)res < g_last) g_inversions++;
      g_last = (uintptr_t)res;
      g_sig = (g_sig ^ (uint64_t)reg) * 0x100000001b3ULL;
    }
    g_allocs++;
  } else {
    errno = ENOMEM;
  }
  unlock();
  return res;
}

static void *dirty(void *p, size_t size) {
  /* malloc does not promise zeroed memory: optionally hand out blocks full of a seeded byte */
  if (p && g_fill >= 0) memset(p, g_fill, size);
  return p;
}

void *malloc(size_t size) { return dirty(alloc(size ? size : 1, 16), size); }
void free(void *p) { (void)p; }
void *calloc(size_t n, size_t m) {
  size_t total;
  if (__builtin_mul_overflow(n, m, &total)) { errno = ENOMEM; return NULL; }
  return alloc(total ? total : 1, 16); /* fresh anonymous pages are zero and never reused */
}
void *realloc(void *old, size_t size) {
  if (!old) return malloc(size);
  size_t osz = ((size_t *)old)[-1];
  if (size == 0) size = 1;
  if (size <= osz) { return old; }
  void *p = dirty(alloc(size, 16), size);
  if (p) memcpy(p, old, osz);
  return p;
}
void *reallocarray(void *old, size_t n, size_t m) {
  size_t total;
  if (__builtin_mul_overflow(n, m, &total)) { errno = ENOMEM; return NULL; }
  return realloc(old, total);
}
int posix_memalign(void **out, size_t align, size_t size) {
  void *p = dirty(alloc(size ? size : 1, align), size);
  if (!p) return ENOMEM;
  *out = p;
  return 0;
}
void *aligned_alloc(size_t align, size_t size) { return dirty(alloc(size ? size : 1, align), size); }
void *memalign(size_t align, size_t size) { return dirty(alloc(size ? size : 1, align), size); }
void *valloc(size_t size) { return alloc(size ? size : 1, 4096); }
void *pvalloc(size_t size) { return alloc(size ? size : 1, 4096); }
size_t malloc_usable_size(void *p) { return p ? ((size_t *)p)[-1] : 0; }
void cfree(void *p) { (void)p; }

__attribute__((destructor)) static void at_exit_report(void) {
  const char *t = getenv("SIMHEAP_TRACE");
  if (!t || !t[0]) return;
  int fd = (int)syscall(SYS_openat, AT_FDCWD, t, O_WRONLY | O_CREAT | O_APPEND | O_CLOEXEC, 0644);
  if (fd < 0) return;
  char line[128];
  int n = snprintf(line, sizeof line, "allocs=%lu inversions=%lu sig=%016llx big=%lu failed=%lu\n", g_allocs, g_inversions, (unsigned long long)g_sig, g_big, g_failed);
  if (n > 0) syscall(SYS_write, fd, line, (size_t)n);
  syscall(SYS_close, fd);
}

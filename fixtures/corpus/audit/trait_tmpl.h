template<class T> struct W { T t; };
struct A {
__published:
  A();
  W<A> w;
};

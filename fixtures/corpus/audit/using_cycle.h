namespace A { using namespace A; int x; }
namespace B { using namespace C_; }
namespace P { }
namespace Q { using namespace P; }
namespace P { using namespace Q; }
int y = P::nothing_here;

"""C15 (storage-damage slice) -- the front-end is total when its input files
are damaged the way storage damages files, and when reads fail."""
import json
import os
import re
import shutil

from ..core import build, runner
from ..core.rng import run_rng, fnv1a
from . import common

NAME = "infault"
LEVEL = {"C15": "fault_enumeration"}
ASSUMPTIONS = [
    "scope: byte strings reachable from the fixed corpus by the finite damage space T (EOF at every offset), B (512-byte block zeroed/dropped/duplicated/swapped, CR before LF, k-th read fails, short reads, unreadable/directory include target) R (one byte replaced by each of a 12-byte alphabet) and D (one byte dropped at each offset); grammar-generated and token-mutated inputs and -D strings are not claimed",
    "a crash is death by signal, std::terminate/abort, a timeout (20 s wall, 30 s CPU) or an ASan / memory-safety UBSan / _GLIBCXX_ASSERTIONS report in the sanitized build; arithmetic UBSan classes are counted only",
]
REAL_VS_STUB = {
    "real": ["parse_file", "interrogate (parser, builder, all three writers)", "libstdc++ ifstream", "tmpfs files"],
    "stub": ["kernel read path for injected read errors and short reads (libsimos.so)", "the storage medium that damages the file (the scheduler writes the damaged bytes)"],
}

ALPHABET = [0, 10, 34, 39, 92, 40, 41, 35, 48, 47, 42, 255]
BLOCK = 512
DIAG = re.compile(rb"^\S+:\d+:\d+: error:", re.M)

CORPUS = []   # list of entries, see _mk_corpus
KINDS = ["rel"]


def _mk_corpus():
    repo = build.REPO
    ents = []

    def add(cid, files, main, target, args, jobs):
        ents.append({"id": cid, "files": files, "main": main, "target": target, "args": args, "jobs": jobs,
                     "size": len(files[target])})

    def rd(p):
        with open(p, "rb") as f:
            return f.read()
    for sub in ("tests/cppparser", "tests/interrogatedb"):
        d = os.path.join(repo, sub)
        for fn in sorted(os.listdir(d)):
            if fn.endswith((".h", ".c", ".cxx")):
                args = ["-D__cplusplus"] if fn.endswith((".h", ".cxx")) else []
                add(sub + "/" + fn, {fn: rd(os.path.join(d, fn))}, fn, fn, args, ["pf", "pfe", "ig"])
    fx = common.FIX
    a, b, c = (rd(os.path.join(fx, "libs", x, x + ".h")) for x in "abc")
    add("fix/rich.h", {"rich.h": rd(os.path.join(fx, "single/rich.h"))}, "rich.h", "rich.h", ["-D__cplusplus"], ["pf", "pfe", "ig", "igc", "igo", "ign"])
    add("fix/slots.h", {"slots.h": rd(os.path.join(fx, "single/slots.h"))}, "slots.h", "slots.h", ["-D__cplusplus"], ["pf", "ig", "igc", "igo", "ign"])
    add("fix/declined.h", {"declined.h": rd(os.path.join(fx, "single/declined.h"))}, "declined.h", "declined.h", ["-D__cplusplus"], ["pf", "ig", "igc", "igo", "ign"])
    add("fix/a.h", {"a.h": a}, "a.h", "a.h", ["-D__cplusplus"], ["pf", "ig"])
    add("fix/b.h:inc", {"a.h": a, "b.h": b}, "b.h", "a.h", ["-D__cplusplus"], ["pf", "ig"])
    add("fix/c.h", {"a.h": a, "b.h": b, "c.h": c}, "c.h", "c.h", ["-D__cplusplus"], ["pf", "ig"])
    cd = os.path.join(fx, "corpus")
    s1, s2, si = rd(os.path.join(cd, "scan1.h")), rd(os.path.join(cd, "scan2.c")), rd(os.path.join(cd, "scan_inc.h"))
    add("corpus/scan1.h", {"scan1.h": s1}, "scan1.h", "scan1.h", ["-D__cplusplus"], ["pf", "pfe", "ig"])
    add("corpus/scan2.c", {"scan2.c": s2, "scan_inc.h": si}, "scan2.c", "scan2.c", [], ["pf", "pfe", "ig"])
    add("corpus/scan2.c:inc", {"scan2.c": s2, "scan_inc.h": si}, "scan2.c", "scan_inc.h", [], ["pf", "pfe", "ig"])
    add("corpus/igate.h", {"igate.h": rd(os.path.join(cd, "igate.h"))}, "igate.h", "igate.h", ["-D__cplusplus"], ["pf", "ig", "igc", "igo", "ign"])
    # a seeded overload-heavy header of the generator the other scenarios use
    gen = common.big_header(20261002, 6).encode()
    add("gen/big.h", {"big.h": gen}, "big.h", "big.h", ["-D__cplusplus"], ["pf", "ig"])
    # several headers on one command line: the damaged one first, followed by a header it already included (#pragma once)
    once = b"#pragma once\nclass OnceThing {\n__published:\n  OnceThing();\n  int once_value() const;\n};\n"
    first = b'#include "once.h"\nclass FirstThing : public OnceThing {\n__published:\n  FirstThing();\n  int first_value(int a = 3) const;\n};\nint first_function(FirstThing *t);\n'
    add("multi/first+once", {"first.h": first, "once.h": once}, ["first.h", "once.h"], "first.h", ["-D__cplusplus"], ["pf", "ig"])
    add("multi/first+a", {"first.h": first, "once.h": once, "a.h": a}, ["first.h", "a.h"], "first.h", ["-D__cplusplus"], ["ig"])
    # reproducers of defects an audit of the unmodified tree found (DESIGN.md section 12): all backends, -promiscuous too
    ad = os.path.join(cd, "audit")
    for fn in sorted(os.listdir(ad)):
        add("audit/" + fn, {fn: rd(os.path.join(ad, fn))}, fn, fn, ["-D__cplusplus"] if not fn.endswith(".c") else [], ["pf", "ig", "igc", "igo", "ign"])
    # generator-made headers an audit's fuzzer found crashes with (Python slot names with odd signatures, property macros naming
    # arbitrary functions, typedef'd arrays and pointers in signatures)
    fz = os.path.join(cd, "fuzz")
    pre = rd(os.path.join(fz, "pre.h"))
    for fn in sorted(os.listdir(fz)):
        if fn != "pre.h":
            add("fuzz/" + fn, {fn: rd(os.path.join(fz, fn)), "pre.h": pre}, fn, fn, ["-D__cplusplus"], ["pf", "ig", "igc", "ign"])
    nh, nn = rd(os.path.join(cd, "nfile.h")), rd(os.path.join(cd, "nfile.N"))
    add("corpus/nfile.N", {"nfile.h": nh, "nfile.N": nn}, "nfile.h", "nfile.N", ["-D__cplusplus"], ["ig"])
    add("corpus/nfile2.N", {"nfile.h": nh, "nfile.N": rd(os.path.join(cd, "nfile2.N"))}, "nfile.h", "nfile.N", ["-D__cplusplus"], ["ig"])
    # scale controls: large but regular inputs, executed fault-free and with a handful of truncations only
    def ctl(cid, name, text, args=()):
        add(cid, {name: text.encode()}, name, name, list(args), ["pf", "pfe"])
        ents[-1]["control"] = True
    ctl("scale/elif-chain", "elif_chain.c", "#if 0\n" + "#elif 0\n" * 8000 + "#else\nint reached;\n#endif\n")
    ctl("scale/macro-chain", "macro_chain.c", "#define M0 7\n" + "".join("#define M%d M%d\n" % (i, i - 1) for i in range(1, 501)) + "int x = M500;\n")
    ctl("scale/deep-parens", "deep_parens.c", "int x = " + "(" * 20000 + "1" + ")" * 20000 + ";\n")
    ctl("scale/deep-namespaces", "deep_ns.h", "".join("namespace n%d {\n" % i for i in range(1200)) + "int z;\n" + "}\n" * 1200, ["-D__cplusplus"])
    ctl("scale/nested-if", "nested_if.c", "#if 1\n" * 5000 + "int deep;\n" + "#endif\n" * 5000)
    # the project's own headers (C and C++ idioms nobody wrote for the occasion): fault-free and a handful of truncations,
    # every job, with the other source directories on the include path
    srcdirs = [os.path.join(repo, "src", d) for d in ("interrogatedb", "dtoolutil", "dtoolbase", "cppparser", "interrogate", "prc")]
    srcdirs = [d for d in srcdirs if os.path.isdir(d)]
    incs = ["-I" + d for d in srcdirs]
    for d in srcdirs:
        for fn in sorted(os.listdir(d)):
            if fn.endswith(".h"):
                data = rd(os.path.join(d, fn))
                if data:
                    add("own/%s/%s" % (os.path.basename(d), fn), {fn: data}, fn, fn, ["-D__cplusplus"] + incs, ["pf", "ig", "igc", "ign"])
                    ents[-1]["control"] = True
    pi = os.path.join(repo, "parser-inc")
    for root, dirs, files in sorted(os.walk(pi)):
        dirs.sort()
        for fn in sorted(files):
            p = os.path.join(root, fn)
            rel = os.path.relpath(p, pi)
            data = rd(p)
            if not data or fn == "README":
                continue
            add("parser-inc/" + rel, {"stub_" + fn.replace("/", "_"): data}, "stub_" + fn, "stub_" + fn, ["-D__cplusplus"], ["pf"])
    return ents


def setup(ctx):
    global CORPUS, KINDS
    if not ctx.no_build:
        build.ensure_shims()
        build.ensure("rel", ("interrogate", "parse_file"))
        build.ensure("san", ("interrogate", "parse_file"))
    KINDS = ["rel"] if ctx.tier == "quick" else ["rel", "san"]
    CORPUS = _mk_corpus()


def _faults_T(ent):
    return [{"kind": "T", "off": o} for o in range(ent["size"])]


def _faults_B(ent):
    out = []
    nb = (ent["size"] + BLOCK - 1) // BLOCK
    for i in range(nb):
        for op in ("zero", "drop", "dup", "swap"):
            if op == "swap" and i + 1 >= nb:
                continue
            out.append({"kind": "B", "op": op, "block": i})
    out.append({"kind": "crlf"})
    for k in (1, 2, 3):
        for err in ("EIO", "EISDIR"):
            out.append({"kind": "read", "k": k, "err": err})
    out.append({"kind": "read", "k": 1, "err": "EINTR"})
    for n in (1, 7, 100):
        out.append({"kind": "chunk", "n": n})
    out.append({"kind": "target-isdir"})
    out.append({"kind": "target-missing"})
    out.append({"kind": "open", "err": "EACCES"})
    out.append({"kind": "open", "err": "ELOOP"})
    out.append({"kind": "open", "err": "EMFILE"})
    return out


def _faults_D(ent):
    return [{"kind": "D", "off": o} for o in range(ent["size"])]


def _faults_R(ent):
    data = ent["files"][ent["target"]]
    return [{"kind": "R", "off": o, "byte": b} for o in range(ent["size"]) for b in ALPHABET if data[o] != b]


def generate(ctx):
    rng = run_rng(ctx.seed, NAME, 0)
    small = [i for i, e in enumerate(CORPUS) if not e["id"].startswith("parser-inc/")]
    for ci, ent in enumerate(CORPUS):
        for job in ent["jobs"]:
            for kind in KINDS:
                yield {"c": ci, "job": job, "build": kind, "fault": None}
    only = os.environ.get("VERIF_INFAULT_ONLY_JOB")      # development aid: restrict the byte-level enumeration to one job
    for ci, ent in enumerate(CORPUS):
        if ent.get("control"):
            for job in ent["jobs"]:
                for off in sorted(set(ent["size"] * j // 9 for j in range(1, 9))):
                    yield {"c": ci, "job": job, "build": "rel", "fault": {"kind": "T", "off": off}}
    if ctx.tier == "thorough":
        for ci, ent in enumerate(CORPUS):
            if ent.get("control"):
                continue
            for job in ent["jobs"]:
                if only:
                    break
                for f in _faults_T(ent) + _faults_B(ent):
                    for kind in KINDS:
                        yield {"c": ci, "job": job, "build": kind, "fault": f}
            # byte replacement / deletion: parse_file on both builds, the other jobs on the shipping-flag build,
            # so that every (file, job, fault) the quick tier can sample has been executed here
            for f in _faults_R(ent) + _faults_D(ent):
                for job in ent["jobs"]:
                    if only and only != job:
                        continue
                    if job == "pf":
                        yield {"c": ci, "job": job, "build": "san", "fault": f}
                        if ent["id"].startswith("parser-inc/"):
                            continue        # the stub headers (85 % of the corpus bytes) get the sanitized build only
                    yield {"c": ci, "job": job, "build": "rel", "fault": f}
    else:
        # seeded sample of the space the thorough tier enumerates
        budget = 30000
        weights = [0 if e.get("control") else e["size"] * (4 if i in small else 1) for i, e in enumerate(CORPUS)]
        total = sum(weights)
        for ci, ent in enumerate(CORPUS):
            if ent.get("control"):
                continue
            n = max(4, budget * weights[ci] // total)
            for job in ent["jobs"]:
                for f in _faults_B(ent):
                    if rng.chance(1, 3):
                        yield {"c": ci, "job": job, "build": "rel", "fault": f}
            data = ent["files"][ent["target"]]
            if ent["target"].endswith(".N"):
                # tiny targets (the .N command file) are enumerated completely even in the quick tier
                for job in ent["jobs"]:
                    for f in _faults_T(ent) + _faults_D(ent) + _faults_R(ent):
                        yield {"c": ci, "job": job, "build": "rel", "fault": f}
                continue
            if ent["size"] <= 600 and not ent["id"].startswith("parser-inc/"):
                # small hand-written targets: every truncation point, every job, also in the quick tier
                for job in ent["jobs"]:
                    for f in _faults_T(ent):
                        yield {"c": ci, "job": job, "build": "rel", "fault": f}
            for _ in range(n):
                job = rng.choice(ent["jobs"])
                off = rng.below(ent["size"])
                r3 = rng.below(5)
                bl = "san" if ent["id"].startswith("parser-inc/") else "rel"
                if r3 < 2:
                    yield {"c": ci, "job": job, "build": "rel", "fault": {"kind": "T", "off": off}}
                elif r3 == 2:
                    yield {"c": ci, "job": job, "build": bl, "fault": {"kind": "D", "off": off}}
                else:
                    b = rng.choice([x for x in ALPHABET if x != data[off]])
                    yield {"c": ci, "job": job, "build": bl, "fault": {"kind": "R", "off": off, "byte": b}}


def damage(data, f):
    k = f["kind"]
    if k == "T":
        return data[:f["off"]]
    if k == "R":
        return data[:f["off"]] + bytes([f["byte"]]) + data[f["off"] + 1:]
    if k == "D":
        return data[:f["off"]] + data[f["off"] + 1:]
    if k == "B":
        i = f["block"] * BLOCK
        blk = data[i:i + BLOCK]
        if f["op"] == "zero":
            return data[:i] + b"\0" * len(blk) + data[i + BLOCK:]
        if f["op"] == "drop":
            return data[:i] + data[i + BLOCK:]
        if f["op"] == "dup":
            return data[:i] + blk + blk + data[i + BLOCK:]
        if f["op"] == "swap":
            nxt = data[i + BLOCK:i + 2 * BLOCK]
            return data[:i] + nxt + blk + data[i + 2 * BLOCK:]
    if k == "crlf":
        return data.replace(b"\n", b"\r\n")
    return data


_site_cache = {}


def crash_site(stderr):
    """Innermost frame inside the repository from an ASan/UBSan stack trace."""
    txt = stderr.decode("utf-8", "replace")
    if "stack-overflow" in txt:
        # the innermost frame of a runaway recursion is arbitrary: name the most frequent repository function instead
        counts = {}
        for line in txt.splitlines():
            m = re.match(r"\s*#\d+ 0x[0-9a-f]+ in (.+?) (/\S+?):(\d+)", line)
            if m and "/src/" in m.group(2):
                fn = re.sub(r"\(.*$", "", m.group(1))
                counts[fn] = counts.get(fn, 0) + 1
        if counts:
            return "stack-overflow:" + sorted(counts.items(), key=lambda kv: (-kv[1], kv[0]))[0][0]
        return "stack-overflow"
    for line in txt.splitlines():
        m = re.match(r"\s*#\d+ 0x[0-9a-f]+ in (.+?) (/\S+?):(\d+)", line)
        if m and "/src/" in m.group(2) and "sanitizer" not in m.group(2):
            fn = m.group(1)
            fn = re.sub(r"\(.*$", "", fn)
            return fn
    m = re.search(r"(\S+\.(?:cxx|h|I|yxx)):\d+:\d+: runtime error", txt)
    if m:
        return os.path.basename(m.group(1))
    return "unknown"


def _argv(ent, job, kind, root):
    pinc = "-S" + common.PARSER_INC
    mains = ent["main"] if isinstance(ent["main"], list) else [ent["main"]]
    if job == "pf":
        return [build.tool(kind, "parse_file")] + ent["args"] + [pinc, "-Isrc"] + ["src/" + m for m in mains]
    if job == "pfe":
        return [build.tool(kind, "parse_file"), "-E"] + ent["args"] + [pinc, "-Isrc"] + ["src/" + m for m in mains]
    backend = {"ig": ["-python-native"], "igc": ["-c", "-promiscuous"], "igo": ["-python-obj", "-promiscuous"], "ign": ["-python-native", "-promiscuous"]}[job]
    return [build.tool(kind, "interrogate"), "-oc", "out/x.cxx", "-od", "out/x.in", "-oh", "out/x.txt", "-module", "m", "-library", "libx"] + \
        backend + ent["args"] + [pinc, "-srcdir", "src"] + mains


def _run(ent, job, kind, fault, tag):
    root = runner.fresh_dir("if-%07d-%s" % (os.getpid(), tag))
    os.makedirs(os.path.join(root, "src"))
    os.makedirs(os.path.join(root, "out"))
    rules = []
    for rel, data in ent["files"].items():
        p = os.path.join(root, "src", rel)
        if rel == ent["target"] and fault is not None:
            if fault["kind"] == "target-isdir":
                os.makedirs(p)
                continue
            if fault["kind"] == "target-missing":
                continue
            data = damage(data, fault)
        with open(p, "wb") as f:
            f.write(data)
    if fault is not None:
        t = "src/" + ent["target"]
        if fault["kind"] == "read":
            rules.append("read:%s:%d:%s" % (t, fault["k"], "eintr" if fault["err"] == "EINTR" else "fail:" + fault["err"]))
        elif fault["kind"] == "chunk":
            rules.append("read:*:0:chunk:%d" % fault["n"])
        elif fault["kind"] == "open":
            rules.append("open:%s:1:fail:%s" % (t, fault["err"]))
    env = {"PATH": "/usr/bin:/bin", "LC_ALL": "C", "SOURCE_DATE_EPOCH": "1"}
    if kind == "san":
        env["ASAN_OPTIONS"] = runner.ASAN_OPTIONS + ":handle_abort=1:handle_sigfpe=1"
    r = runner.run_tool(_argv(ent, job, kind, root), cwd=root, root=root, plan=rules, env=env, san=(kind == "san"))
    outs = [x for x in ("x.cxx", "x.in", "x.txt") if os.path.exists(os.path.join(root, "out", x))]
    shutil.rmtree(root, ignore_errors=True)
    r.stderr = r.stderr.replace(root.encode(), b"$W")
    return r, outs


def execute(plan):
    ent = CORPUS[plan["c"]]
    job, kind, fault = plan["job"], plan["build"], plan["fault"]
    tag = "%016x" % fnv1a(json.dumps(plan, sort_keys=True))
    r, outs = _run(ent, job, kind, fault, tag)
    violations = []
    tool = "interrogate" if job.startswith("ig") else "parse_file"
    crashed = r.crashed or (r.status is not None and r.status not in (0, 1, 255) and r.status >= 126)
    if crashed:
        site = "unknown"
        if r.timeout:
            site = "timeout"
        elif kind == "san":
            site = crash_site(r.stderr)
        else:
            # identify the site by re-running the same damaged input on the sanitized build
            r2, _ = _run(ent, job, "san", fault, tag + "s")
            site = crash_site(r2.stderr) if r2.crashed else "rel-only"
        for attempt in range(3):
            if site != "stack-overflow":
                break
            # the sanitizer runtime sometimes fails to unwind an exhausted stack; the class key must not depend on that
            r2, _ = _run(ent, job, "san", fault, tag + "s%d" % attempt)
            if r2.crashed:
                site = crash_site(r2.stderr)
        if r.timeout and runner.LAST_HANG_STACK:
            site_note = "; stack when killed: " + runner.LAST_HANG_STACK
        else:
            site_note = ""
        what = "timeout" if r.timeout else ("signal" if r.signal else ("sanitizer" if r.sanitizer else "status%s" % r.status))
        first = (r.stderr.decode("utf-8", "replace").strip().splitlines() or [""])[0][:160]
        violations.append({"property": "C15", "class": "crash", "key": {"tool": tool, "site": site},
                           "msg": "%s (%s build) on %s with fault %s: %s; innermost repository frame: %s; stderr: %s" %
                                  (tool, kind, ent["id"], json.dumps(fault, sort_keys=True), r.outcome(), site, first + site_note)})
    elif DIAG.search(r.stderr):
        if r.status == 0:
            violations.append({"property": "C15", "class": "error-but-exit0", "key": {"tool": tool, "kind": "error-diagnostic-exit0"},
                               "msg": "%s on %s with fault %s printed an error diagnostic but exited 0" % (tool, ent["id"], json.dumps(fault, sort_keys=True))})
        if outs:
            violations.append({"property": "C15", "class": "error-but-outputs", "key": {"tool": tool, "kind": "error-diagnostic-outputs-written"},
                               "msg": "%s on %s with fault %s reported a parse error but left output files %s" % (tool, ent["id"], json.dumps(fault, sort_keys=True), outs)})
    fired = runner.fired_faults(r.trace)
    fk = "none" if fault is None else fault["kind"] + ("-" + fault["op"] if "op" in fault else "")
    outcome_class = "crash" if crashed else ("error" if r.status else "ok")
    abstract = "%s|%s|%s|%s|%s" % (ent["id"], job, kind, fk, outcome_class)
    if fault is not None and fault["kind"] in ("T", "R", "D"):
        abstract += "|%d" % (fault["off"] * 40 // max(1, ent["size"]))   # position bucket
    ub = r.stderr.count(b"runtime error:") if kind == "san" else 0
    if r.timeout:
        # how much a hanging process managed to print before it was killed is not part of the run's identity
        h = runner.sha(json.dumps([plan, "timeout"], sort_keys=True))
    else:
        h = runner.sha(json.dumps([plan, r.outcome(), runner.sha(re.sub(rb"0x[0-9a-f]+|==\d+==", b"", r.stderr)), outs], sort_keys=True))
    return {"violations": violations, "harness_faults": [], "abstract": abstract, "hash": h,
            "nontrivial": fault is not None, "fault_kind": fk, "fired": fired, "outcome": outcome_class,
            "arith_ubsan": ub, "diag": bool(DIAG.search(r.stderr))}


def shrink(plan, fails):
    best = plan
    f = plan["fault"]
    if f and f["kind"] == "T":
        # the earliest prefix that still fails in the same class
        lo = None
        for off in range(0, f["off"], max(1, f["off"] // 24)):
            cand = dict(plan, fault=dict(f, off=off))
            if fails(cand):
                lo = cand
                break
        if lo:
            best = lo
    if best["build"] == "san":
        cand = dict(best, build="rel")
        if fails(cand):
            best = cand
    return best


class Cov:
    def __init__(self, ctx):
        self.ctx = ctx
        self.by_kind, self.outcomes, self.fired = {}, {}, {}
        self.abstracts = set()
        self.ub = self.diag = self.n = 0
        self.samples = []

    def add(self, p, r):
        self.n += 1
        self.by_kind[r["fault_kind"]] = self.by_kind.get(r["fault_kind"], 0) + 1
        key = "%s/%s" % (p["build"], r["outcome"])
        self.outcomes[key] = self.outcomes.get(key, 0) + 1
        for k, n in r["fired"].items():
            self.fired[k] = self.fired.get(k, 0) + n
        if r["nontrivial"]:
            self.abstracts.add(r["abstract"])
        self.ub += r["arith_ubsan"]
        self.diag += 1 if r["diag"] else 0
        if p["fault"] is not None and len(self.samples) < 6 and self.n % 997 == 1:
            self.samples.append(dict(p, corpus_file=CORPUS[p["c"]]["id"], outcome=r["outcome"]))

    def finish(self):
        total_bytes = sum(e["size"] for e in CORPUS)
        return {
            "evaluations": self.n,
            "distinct_nontrivial": len(self.abstracts),
            "rule": "one case = (corpus file, job in {parse_file, parse_file -E, interrogate with -oc/-od/-oh}, build, one storage fault on the target file); "
                    "fault space: T = EOF at every offset; B = every 512-byte block zeroed/dropped/duplicated/swapped, CR before every LF, k-th read(2) fails (EIO/EISDIR) or is interrupted, short reads of 1/7/100 bytes, "
                    "target is a directory / missing / open fails (EACCES, ELOOP, EMFILE); R = one byte replaced by each of %s; D = one byte dropped at every offset; thorough enumerates T and B on both builds and R and D on the sanitized build, quick samples the same space by seed; "
                    "non-trivial = a fault was applied; distinct = distinct (file, job, build, fault kind, outcome class, 1/40th position bucket) tuples" % ALPHABET,
            "samples": self.samples or [{"note": "no faulted sample retained"}],
            "exhaustive": self.ctx.tier == "thorough",
            "corpus_files": len(CORPUS), "corpus_bytes": total_bytes,
            "cases_by_fault_kind": self.by_kind, "process_outcomes_by_build": self.outcomes, "shim_faults_fired": self.fired,
            "runs_with_error_diagnostic": self.diag, "arithmetic_ubsan_reports_counted_not_verdict": self.ub,
            "simulated_time_covered": "none: no clock on this path",
            "distinct_interleavings_measure": "distinct abstract cases (see rule): %d" % len(self.abstracts),
        }

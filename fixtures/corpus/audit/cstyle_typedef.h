typedef struct CStyle {
  int a;
} CStyle;
typedef struct CStyle2 CStyle2;
struct CStyle2 { int b; };
CStyle *make_cstyle(CStyle2 *other);

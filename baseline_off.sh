#!/bin/sh
# Runs the repository's own test suite exactly as the baseline does, with the
# verification guard (INTERROGATE_VERIF) OFF.
set -e
cmake -G Ninja -S /repo -B /repo/_build -DCMAKE_BUILD_TYPE=RelWithDebInfo -DCMAKE_CXX_FLAGS=-Wno-error -DCMAKE_C_FLAGS=-Wno-error -DBUILD_SHARED_LIBS=ON >/dev/null
cmake --build /repo/_build
ctest --test-dir /repo/_build -j8 --timeout 900

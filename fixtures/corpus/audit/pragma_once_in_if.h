#if 1 + \
#pragma once
 1
int q;
#endif

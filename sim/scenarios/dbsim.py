"""C12 / C13 / C20 -- the run-time database under seeded registration / load /
query histories with storage faults, against the reference model."""
import itertools
import json
import os
import re
import subprocess
import sys

from ..core import build, runner
from ..core.rng import run_rng, Rng
from ..model import idb_format as F, idb_gen
from . import common

NAME = "dbsim"
LEVEL = {"C12": "fault_enumeration", "C13": "exploration", "C20": "exploration"}
ASSUMPTIONS = [
    "the independent reader/writer of the .in format (sim/model/idb_format.py, derived from the output()/input() pairs) is the trusted base; it reproduces every real database file byte for byte",
    "the merged database is observed through InterrogateDatabase::write (via a helper compiled against /repo's headers) and through the extern C query interface called by ctypes; both run the real library code",
    "one fresh process per history (the database is a process-global singleton without reset)",
    "the sanitized build of libinterrogatedb is used for every history (out-of-range accessors abort deterministically); the thorough tier repeats a share on the shipping-flag build",
]
REAL_VS_STUB = {
    "real": ["libinterrogatedb.so built from /repo (lazy loader, reader, merge, lookups, query interface)", "interrogate (producer of the real-pipeline databases)", "tmpfs .in files", "libstdc++ ifstream"],
    "stub": ["compiled libraries: only their static-init registration calls (interrogate_request_module / _database) are issued, by the scheduler", "the foreign-function client (scheduler)", "kernel read path for read errors / short reads (libsimos.so)", "the independent .in writer that plays an older interrogate (formats 3.0-3.2)"],
}

REAL_DIR = None
_worker = {}
ENUM_COUNTS = ["interrogate_number_of_manifests", "interrogate_number_of_globals", "interrogate_number_of_global_functions",
               "interrogate_number_of_functions", "interrogate_number_of_global_types", "interrogate_number_of_types"]


def setup(ctx):
    global REAL_DIR
    if not ctx.no_build:
        build.ensure_shims()
        build.ensure("san", ("interrogatedb",))
        build.ensure_helper("san")
        build.ensure("rel", ("interrogate", "interrogatedb"))
        build.ensure_helper("rel")
    REAL_DIR = os.path.join(build.build_dir("rel"), "dbsim-real")
    os.makedirs(REAL_DIR, exist_ok=True)
    # real databases from the fixtures (deterministic: SOURCE_DATE_EPOCH)
    env = {"PATH": "/usr/bin:/bin", "SOURCE_DATE_EPOCH": "1600000000"}
    libs = common.libs_fixture()
    jobs = []
    for l in ("a", "b", "c"):
        jobs.append(("lib%s.in" % l, common.igate_job(l, libs[l]["files"], libs[l]["main"], "-python-native", channels=("oc", "od"), srcdir=libs[l]["srcdir"], incs=libs[l]["incs"])))
    rich = common.read_fixture("single/rich.h")
    for be in ("-c", "-python", "-python-native"):
        jobs.append(("rich%s.in" % be, common.igate_job("rich", {"rich.h": rich}, ["rich.h"], be, channels=("oc", "od"), opts=["-unique-names"] if be == "-c" else [])))
    jobs.append(("rich-odonly.in", common.igate_job("rich", {"rich.h": rich}, ["rich.h"], "-python-native", channels=("od",))))
    declined = common.read_fixture("single/declined.h")
    for be in ("-c", "-python-native"):
        jobs.append(("declined%s.in" % be, common.igate_job("declined", {"declined.h": declined}, ["declined.h"], be, channels=("oc", "od"))))
    # the project's own headers, everything exported: large real databases
    own_incs = [os.path.join(build.REPO, "src", x) for x in ("interrogatedb", "dtoolutil", "dtoolbase", "cppparser", "interrogate")]
    for d, fn, be in (("interrogatedb", "interrogateType.h", "-python-native"), ("cppparser", "cppScope.h", "-c"), ("dtoolutil", "filename.h", "-python-native")):
        path = os.path.join(build.REPO, "src", d, fn)
        if os.path.exists(path):
            with open(path, "rb") as f:
                data = f.read().decode("latin-1")
            jobs.append(("own-%s%s.in" % (fn[:-2], be), common.igate_job("own" + fn[:-2].lower(), {fn: data}, [fn], be, channels=("oc", "od"), opts=["-promiscuous"], incs=own_incs)))
    _gen_real_universes(ctx, env)
    for name, job in jobs:
        root = runner.fresh_dir("dbreal")
        common.materialise(job, root)
        r = common.run_job(job, root, "rel", env=env)
        if r.status != 0:
            raise SystemExit("dbsim: cannot produce %s: %s" % (name, r.stderr.decode()[-800:]))
        data = runner.read_file(os.path.join(root, job["outputs"]["od"]))
        if F.serialise(F.parse(data)) != data:
            raise SystemExit("dbsim: independent reader/writer does not reproduce real file %s" % name)
        with open(os.path.join(REAL_DIR, name), "wb") as f:
            f.write(data)
        # the index range the generated code compiles into its module definition (python-native only)
        code = runner.read_file(os.path.join(root, job["outputs"]["oc"])) if "oc" in job["outputs"] else None
        m = re.search(rb"(\d+),\s*/\* first_index \*/\s*(\d+)\s*/\* next_index \*/", code or b"")
        if m:
            with open(os.path.join(REAL_DIR, name + ".range"), "w") as f:
                f.write("%d %d\n" % (int(m.group(1)), int(m.group(2))))
        common.cleanup(root)


REAL_UNIVERSES = []      # [[file names relative to REAL_DIR]] -- multi-library sets produced by the real interrogate from generated headers


def _gen_real_universes(ctx, env):
    """k libraries with a seeded cross-library derivation/typedef graph (the modsim header generator), run through the real interrogate."""
    from . import modsim
    global REAL_UNIVERSES
    REAL_UNIVERSES = []
    n = 6 if ctx.tier == "quick" else 40
    for ui in range(n):
        rng = run_rng(ctx.seed, NAME + "/realuni", ui)
        kind = rng.choice(["chain", "dag", "diamond", "forest", "dag"])
        k = rng.range(4 if kind == "diamond" else 2, 5)
        names = modsim.lib_names(rng, k)
        edges = modsim.gen_graph(rng, k, kind)
        files = modsim.real_headers(rng, names, edges, set())
        root = runner.fresh_dir("dbrealuni")
        for rel, text in files.items():
            p = os.path.join(root, "src", rel)
            os.makedirs(os.path.dirname(p), exist_ok=True)
            with open(p, "w") as f:
                f.write(text)
        os.makedirs(os.path.join(root, "db"))
        out = []
        ok = True
        for u in range(k):
            argv = [build.tool("rel", "interrogate"), "-od", "db/%s.in" % names[u], "-oc", "db/%s.cxx" % names[u], "-module", "mod", "-library", names[u],
                    rng.choice(["-python-native", "-python-native", "-c", "-python"]), "-D__cplusplus", "-S" + common.PARSER_INC]
            for v in range(k):
                if v != u:
                    argv += ["-I", "src/" + names[v]]
            argv += ["-srcdir", "src/" + names[u], names[u] + ".h"]
            r = runner.run_tool(argv, cwd=root, env=env)
            if r.status != 0:
                ok = False
                break
            data = runner.read_file(os.path.join(root, "db", names[u] + ".in"))
            if F.serialise(F.parse(data)) != data:
                raise SystemExit("dbsim: independent reader/writer does not reproduce a generated real database")
            d = os.path.join(REAL_DIR, "u%d" % ui)
            os.makedirs(d, exist_ok=True)
            with open(os.path.join(d, names[u] + ".in"), "wb") as f:
                f.write(data)
            out.append("u%d/%s.in" % (ui, names[u]))
        common.cleanup(root)
        if ok:
            REAL_UNIVERSES.append(out)


def _start_worker(kind):
    pre = []
    env = {"PATH": "/usr/bin:/bin", "LC_ALL": "C", "PYTHONDONTWRITEBYTECODE": "1", "PYTHONHASHSEED": os.environ.get("PYTHONHASHSEED", "0")}
    if kind == "san":
        pre += [runner._libasan(), runner.libubsan()]
        env["ASAN_OPTIONS"] = runner.ASAN_OPTIONS + ":handle_abort=1:handle_sigfpe=1:verify_asan_link_order=0"
        # in the query library every UBSan report is fatal, the arithmetic classes too: "returns a defined neutral value"
        env["UBSAN_OPTIONS"] = runner.UBSAN_OPTIONS + ":halt_on_error=1"
    pre.append(build.shim("simos"))
    env["LD_PRELOAD"] = ":".join(pre)
    scratch = runner.fresh_dir("dbw-%07d-%s" % (os.getpid(), kind))
    argv = [sys.executable, os.path.join(os.path.dirname(os.path.abspath(__file__)), "dbworker.py"),
            build.libdb(kind), os.path.join(build.build_dir(kind), "lib", "libdbhelper.so"), build.REPO, build.shim("simos"), REAL_DIR, scratch]
    return subprocess.Popen(argv, stdin=subprocess.PIPE, stdout=subprocess.PIPE, env=env, cwd=scratch)


def _ask(kind, plan):
    w = _worker.get(kind)
    for attempt in (0, 1):
        if w is None or w.poll() is not None:
            w = _worker[kind] = _start_worker(kind)
        try:
            w.stdin.write((json.dumps({"plan": plan, "timeout": 60}) + "\n").encode())
            w.stdin.flush()
            line = w.stdout.readline()
            if line:
                return json.loads(line)["result"]
        except (BrokenPipeError, OSError):
            pass
        w = None
    return {"harness_error": "dbworker died twice", "done": None}


# ---------------------------------------------------------------- plan generation

def _regs(rng, order, style):
    ops = []
    for li in order:
        if style == "db" or (style == "mix" and rng.chance(1, 2)):
            ops.append({"op": "reg_db", "lib": li})
        else:
            ops.append({"op": "reg_mod", "lib": li, "range": True if style == "mod" else rng.chance(3, 4), "ident": rng.choice(["match", "match", "zero"]),
                        "uniq": rng.choice([None, 0, 1, 2, 3, 99]), "fptrs": rng.choice([None, -1, 0, 2])})
    return ops


def gen_c12(ctx):
    plans = []
    thorough = ctx.tier == "thorough"
    i = 0

    def add(universe, faults, ops, build_="san"):
        nonlocal i
        plans.append({"id": i, "focus": "C12", "build": build_, "universe": universe, "faults": faults, "ops": ops})
        i += 1
    nround = 60 if not thorough else 600
    for n in range(nround):
        rng = run_rng(ctx.seed, NAME + "/c12rt", n)
        u = {"seed": rng.next(), "k": 1, "size": rng.choice([1, 2, 4, 8, 20 if thorough else 8]), "shared": 0, "minors": [rng.choice([0, 1, 2, 3])], "alt": rng.chance(1, 4)}
        how = rng.choice(["db", "mod", "mod"])
        add(u, {}, _regs(rng, [0], how) + [{"op": "roundtrip", "sweep": n % 3 == 0}])
        if n % 4 == 0:
            add(u, {}, _regs(rng, [0], how) + [{"op": "verify", "sweep": False, "dump_first": True}])
    reals = sorted(x for x in os.listdir(REAL_DIR) if x.endswith(".in"))
    for name in reals:
        add({"real": [name]}, {}, [{"op": "reg_db", "lib": 0}, {"op": "roundtrip", "sweep": True}])
        add({"real": [name]}, {}, [{"op": "reg_db", "lib": 0}, {"op": "roundtrip", "sweep": True}], "rel")
    # storage faults: every prefix of small generated files (thorough: of all), seeded prefixes of real files
    nfiles = 6 if not thorough else 40
    for n in range(nfiles):
        rng = run_rng(ctx.seed, NAME + "/c12torn", n)
        u = {"seed": rng.next(), "k": 1, "size": rng.choice([1, 2, 3]) if not thorough else rng.choice([1, 2, 4, 6]), "shared": 0, "minors": [rng.choice([0, 1, 2, 3, 3])], "alt": False}
        size = len(F.serialise(idb_gen.gen_universe(Rng(u["seed"]), 1, size=u["size"], shared=0, minor_choices=tuple(u["minors"]))[0]))
        offs = range(size) if (thorough or n < 2) else sorted(set(rng.below(size) for _ in range(120)))
        for off in offs:
            add(u, {"0": {"kind": "torn", "off": off}}, [{"op": "reg_db", "lib": 0}] + ([{"op": "flag"}] if off % 3 == 0 else []) + [{"op": "verify", "sweep": False, "lookups": False}])
    for name in reals:
        with open(os.path.join(REAL_DIR, name), "rb") as f:
            size = len(f.read())
        rng = run_rng(ctx.seed, NAME + "/c12tornreal", hash_name(name))
        offs = range(size) if thorough and name in ("libc.in", "libb.in") else sorted(set(rng.below(size) for _ in range(40 if not thorough else 400)))
        for off in offs:
            add({"real": [name]}, {"0": {"kind": "torn", "off": off}}, [{"op": "reg_db", "lib": 0}, {"op": "verify", "sweep": False, "lookups": False}])
    # header / version / identifier / other storage states, over generated and real files
    for n in range(12 if not thorough else 80):
        rng = run_rng(ctx.seed, NAME + "/c12hdr", n)
        u = {"seed": rng.next(), "k": 1, "size": 3, "shared": 0, "minors": [rng.choice([0, 1, 2, 3])], "alt": False} if n % 3 else {"real": [rng.choice(reals)]}
        for f in ([{"kind": "header", "text": t} for t in ("3 4", "3 99", "2 3", "4 0", "0 0", "x y", "-3 3")] +
                  [{"kind": "ident-line", "text": "notanumber"}, {"kind": "missing"}, {"kind": "isdir"}] +
                  [{"kind": "read", "k": k} for k in (1, 2, 3)] + [{"kind": "chunk", "n": c} for c in (1, 13, 512)]):
            add(u, {"0": f}, [{"op": "reg_db", "lib": 0}, {"op": "verify", "sweep": False, "lookups": f["kind"] == "chunk"}])
            if n % 2 == 0:
                # the error flag asked as the very first thing after the request, before any other query has made the library read the file
                add(u, {"0": f}, [{"op": "reg_db", "lib": 0}, {"op": "flag"}, {"op": "verify", "sweep": False, "lookups": False}])
        add(u, {"0": {"kind": "ident", "delta": rng.below(1000)}}, [{"op": "reg_mod", "lib": 0, "range": True, "ident": "match"}, {"op": "verify"}])
        # the same mismatch for a module definition without a compiled-in index range (the database numbers it itself)
        add(u, {"0": {"kind": "ident", "delta": rng.below(1000)}}, [{"op": "reg_mod", "lib": 0, "range": False, "ident": "match", "uniq": rng.choice([None, 2])}, {"op": "verify"}])
        add(u, {"0": {"kind": "stale", "delta": rng.choice([1, 2, -1])}}, [{"op": "reg_mod", "lib": 0, "range": True, "ident": "match"}, {"op": "verify"}])
    # one number of the file replaced: every numeric token of two small generated files x a few values (thorough: more files);
    # the outcome is not modelled, the library must survive (no crash, abort, hang or sanitizer report)
    for n in range(2 if not thorough else 10):
        rng = run_rng(ctx.seed, NAME + "/c12badnum", n)
        u = {"seed": rng.next(), "k": 1, "size": rng.choice([1, 2]), "shared": 0, "minors": [rng.choice([1, 3])], "alt": n % 2 == 1}
        data = F.serialise(idb_gen.gen_universe(Rng(u["seed"]), 1, size=u["size"], shared=0, minor_choices=tuple(u["minors"]))[0])
        ntok = len(re.findall(rb"(?<![\w.])-?\d+(?![\w.])", data))
        for which in range(ntok):
            for value in ((-5, 2000000000) if not thorough else (-5, -1, 2000000000, 2147483647, -2147483648)):
                add(u, {"0": {"kind": "badnum", "which": which, "value": value}}, [{"op": "reg_db", "lib": 0}, {"op": "touch"}])
    # mixed format versions in one process: an old file after a current one and vice versa, with and without a fault in between
    for n in range(24 if not thorough else 240):
        rng = run_rng(ctx.seed, NAME + "/c12mix", n)
        k = rng.choice([2, 2, 3])
        u = {"seed": rng.next(), "k": k, "size": 3, "shared": rng.choice([0, 2]), "minors": [0, 1, 2, 3], "alt": False}
        order = rng.shuffle(range(k))
        faults = {}
        if rng.chance(1, 3):
            faults[str(rng.below(k))] = rng.choice([{"kind": "torn", "off": rng.below(400), "mod": True}, {"kind": "header", "text": "3 4"}])
        ops = []
        for li in order:
            ops += _regs(rng, [li], "mix")
            if rng.chance(1, 2):
                ops.append({"op": "verify", "sweep": False})
        ops.append({"op": "verify", "sweep": n % 4 == 0})
        add(u, faults, ops)
    return plans


def hash_name(s):
    from ..core.rng import tag
    return tag(s) % 100000


def gen_c13(ctx, focus="C13"):
    plans = []
    thorough = ctx.tier == "thorough"
    nuni = (160 if focus == 'C13' else 60) if not thorough else (4000 if focus == 'C13' else 1200)
    i = 0
    for n in range(nuni):
        rng = run_rng(ctx.seed, NAME + "/" + focus, n)
        if n % 8 == 7:
            u = {"real": ["liba.in", "libb.in", "libc.in"]}
            k = 3
        elif n % 8 == 3 and REAL_UNIVERSES:
            files = REAL_UNIVERSES[(n // 8) % len(REAL_UNIVERSES)]
            u = {"real": files}
            k = len(files)
        else:
            k = rng.choice([1, 2, 2, 3, 3, 4, 5])
            u = {"seed": rng.next(), "k": k, "size": rng.choice([2, 3, 5]), "shared": rng.choice([1, 2, 3, 4]), "minors": [3] if rng.chance(2, 3) else [0, 1, 2, 3], "alt": False}
        perms = list(itertools.permutations(range(k)))
        if len(perms) > (6 if not thorough else 24):
            perms = rng.sample(perms, 6 if not thorough else 24)
        for order in perms:
            order = list(order)
            style = rng.choice(["db", "mod", "mix"])
            faults = {}
            if rng.chance(1, 3) and "real" not in u or rng.chance(1, 6):
                for li in rng.sample(range(k), rng.range(1, max(1, (k + 1) // 2))):
                    faults[str(li)] = rng.choice([{"kind": "torn", "off": rng.below(3000), "mod": True}, {"kind": "missing"}, {"kind": "header", "text": "3 4"},
                                                  {"kind": "header", "text": "4 0"}, {"kind": "isdir"}, {"kind": "read", "k": rng.range(1, 2)}, {"kind": "chunk", "n": rng.choice([1, 64])}])
            shape = rng.below(5)
            ops = []
            sd = rng.below(8)
            search_op = None
            if sd == 0:
                ops.append({"op": "search_dir"})
            elif sd == 1:
                ops.append({"op": "search_path", "before": rng.range(0, 2), "after": rng.range(0, 2)})
            elif sd in (2, 3):
                # registrations by bare file name first, the directory becomes known only later (loading is lazy)
                search_op = {"op": "search_dir"} if sd == 2 else {"op": "search_path", "before": rng.range(1, 2), "after": rng.range(1, 2)}
            if shape == 0:          # everything registered before the first query: one lazy batch
                ops += _regs(rng, order, style)
            elif shape == 1:        # one at a time, verified after each
                for li in order:
                    ops += _regs(rng, [li], style) + [{"op": "verify", "sweep": False}]
            elif shape == 2:        # lookup -> register -> same lookup (cache freshness)
                for li in order:
                    ops += _regs(rng, [li], style)
                    fn = rng.choice(["interrogate_get_type_by_name", "interrogate_get_type_by_scoped_name", "interrogate_get_type_by_true_name",
                                     "interrogate_get_manifest_by_name", "interrogate_get_element_by_name", "interrogate_get_element_by_scoped_name"])
                    ops.append({"op": "lookup", "fn": fn, "name": rng.choice(["Sh0", "sh0", "T0", "M0", "e0", "nothing"])})
            elif shape == 3:        # counts between registrations
                for li in order:
                    ops += _regs(rng, [li], style)
                    if rng.chance(1, 2):
                        ops.append({"op": "count", "fn": rng.choice(["interrogate_number_of_functions", "interrogate_number_of_global_types", "interrogate_number_of_manifests", "interrogate_number_of_globals"])})
                    if rng.chance(1, 3):
                        ops.append({"op": "flag"})
            else:                   # two batches
                cut = rng.range(1, k) if k > 1 else 1
                ops += _regs(rng, order[:cut], style) + [{"op": "verify", "sweep": False}] + _regs(rng, order[cut:], style)
            if focus == "C20" and rng.chance(1, 2):
                # a count function as the very first query after the last registration
                last_reg = max(i for i, o in enumerate(ops) if o["op"] in ("reg_db", "reg_mod"))
                ops.insert(last_reg + 1, {"op": "count_first", "fn": rng.choice(sorted(ENUM_COUNTS))})
            if focus == "C20":
                ops.append({"op": "uniq", "seed": rng.below(1 << 30), "even_empty": True})
            ops.append({"op": "verify", "sweep": focus == "C20" or rng.chance(1, 5), "lookups": True, "dump_first": focus == "C13" and i % 7 == 3})
            if focus == "C20":
                ops.append({"op": "uniq", "seed": rng.below(1 << 30)})
            plan = {"id": i, "focus": focus, "build": "san" if (not thorough or i % 4) else "rel", "universe": u, "faults": faults, "ops": ops}
            if search_op is not None:
                # just before the first operation that queries the database
                # (asking for the error flag is such an operation; some plans keep it ahead of the search directory: that load must fail)
                early_flag = i % 5 == 0
                first_q = next((j for j, o in enumerate(ops) if o["op"] not in (("reg_db", "reg_mod", "flag") if early_flag else ("reg_db", "reg_mod"))), len(ops))
                ops.insert(first_q, search_op)
                plan["relative"] = True
            plans.append(plan)
            i += 1
    return plans


def gen_c20(ctx):
    plans = gen_c13(ctx, "C20")
    thorough = ctx.tier == "thorough"
    i = len(plans)
    # unique-name tables of every size 0..n, function-pointer tables shorter / equal / longer
    for n in range(8 if not thorough else 60):
        rng = run_rng(ctx.seed, NAME + "/c20uniq", n)
        size = rng.choice([4, 8, 12])
        u = {"seed": rng.next(), "k": 1, "size": size, "shared": 0, "minors": [3], "alt": False}
        for uniq in range(0, size + 2):
            for fp in (None, -1, 0, 3):
                if fp is not None and uniq % 3:
                    continue
                ops = [{"op": "reg_mod", "lib": 0, "range": True, "ident": "match", "uniq": uniq, "fptrs": fp, "libname": not (uniq == 2 and fp == 0)},
                       {"op": "uniq", "seed": n, "even_empty": True}, {"op": "verify", "sweep": uniq == 0}, {"op": "uniq", "seed": n + 1, "even_empty": True}]
                plans.append({"id": i, "focus": "C20", "build": "san", "universe": u, "faults": {}, "ops": ops})
                i += 1
    # several modules that go by the same four-character library hash, each with its own unique-name table
    for n in range(12 if not thorough else 120):
        rng = run_rng(ctx.seed, NAME + "/c20samehash", n)
        k = rng.choice([2, 2, 3, 4])
        u = {"seed": rng.next(), "k": k, "size": rng.choice([3, 5, 8]), "shared": rng.below(3), "minors": [3] * k, "alt": False}
        hashes = [rng.choice(["HHHH", "HHHH", "HHHH", "JJJJ"]) for _ in range(k)]
        ops = []
        for li in rng.shuffle(list(range(k))):
            ops.append({"op": "reg_mod", "lib": li, "range": True, "ident": "match", "uniq": rng.choice([0, 1, 3, 6, 50]), "fptrs": rng.choice([None, 0]), "hash": hashes[li]})
            if rng.chance(1, 3):
                ops.append({"op": "uniq", "seed": n, "even_empty": True})
        ops += [{"op": "uniq", "seed": n, "even_empty": True}, {"op": "verify", "sweep": False}, {"op": "uniq", "seed": n + 1, "even_empty": True}]
        plans.append({"id": i, "focus": "C20", "build": "san", "universe": u, "faults": {}, "ops": ops})
        i += 1
    # a module definition registered twice: before the first query, and again after it has been loaded
    for n in range(10 if not thorough else 100):
        rng = run_rng(ctx.seed, NAME + "/c20again", n)
        k = rng.choice([1, 2, 3])
        u = {"seed": rng.next(), "k": k, "size": rng.choice([2, 4]), "shared": rng.below(2), "minors": [3] * k, "alt": False}
        ops = []
        for li in rng.shuffle(list(range(k))):
            ops.append({"op": "reg_mod", "lib": li, "range": rng.chance(2, 3), "ident": "match", "uniq": rng.choice([None, 2]), "fptrs": rng.choice([None, 0])})
            if rng.chance(1, 2):
                ops.append({"op": "reg_again", "lib": li})
            if rng.chance(1, 3):
                ops.append({"op": "count", "fn": "interrogate_number_of_functions"})
                ops.append({"op": "reg_again", "lib": li})
        ops += [{"op": "verify", "sweep": n % 3 == 0}, {"op": "reg_again", "lib": rng.below(k)}, {"op": "verify", "sweep": False}]
        plans.append({"id": i, "focus": "C20", "build": "san", "universe": u, "faults": {}, "ops": ops})
        i += 1
    for name in sorted(x for x in os.listdir(REAL_DIR) if x.endswith(".in") and os.path.exists(os.path.join(REAL_DIR, x + ".range"))):
        plans.append({"id": i, "focus": "C20", "build": "san", "universe": {"real": [name]}, "faults": {},
                      "ops": [{"op": "reg_mod", "lib": 0, "range": "generated", "ident": "match"}, {"op": "reg_again", "lib": 0}, {"op": "verify", "sweep": True}]})
        i += 1
    # a database registered through the module definition its own code file compiles in (file identifier, index range)
    for name in sorted(x for x in os.listdir(REAL_DIR) if x.endswith(".in") and os.path.exists(os.path.join(REAL_DIR, x + ".range"))):
        plans.append({"id": i, "focus": "C20", "build": "san", "universe": {"real": [name]}, "faults": {},
                      "ops": [{"op": "reg_mod", "lib": 0, "range": "generated", "ident": "match"}, {"op": "flag"}, {"op": "verify", "sweep": True}]})
        i += 1
    # every database written by the real interrogate, alone: totality sweep, counts vs entries (no phantom entries)
    for name in sorted(x for x in os.listdir(REAL_DIR) if x.endswith(".in")):
        for kind in ("san", "rel"):
            plans.append({"id": i, "focus": "C20", "build": kind, "universe": {"real": [name]}, "faults": {},
                          "ops": [{"op": "reg_db", "lib": 0}, {"op": "verify", "sweep": True}]})
            i += 1
    for ui, files in enumerate(REAL_UNIVERSES):
        plans.append({"id": i, "focus": "C20", "build": "san", "universe": {"real": files}, "faults": {},
                      "ops": [{"op": "reg_db", "lib": li} for li in range(len(files))] + [{"op": "verify", "sweep": True}]})
        i += 1
    # an empty database (nothing registered) and a database whose only file failed to load
    plans.append({"id": i, "focus": "C20", "build": "san", "universe": {"seed": 5, "k": 1, "size": 2, "shared": 0, "minors": [3]}, "faults": {},
                  "ops": [{"op": "uniq", "seed": 1, "even_empty": True}, {"op": "verify", "sweep": True}]})
    plans.append({"id": i + 1, "focus": "C20", "build": "san", "universe": {"seed": 6, "k": 1, "size": 2, "shared": 0, "minors": [3]}, "faults": {"0": {"kind": "missing"}},
                  "ops": [{"op": "reg_db", "lib": 0}, {"op": "verify", "sweep": True}]})
    return plans


def generate(ctx):
    if ctx.prop == "C12":
        return gen_c12(ctx)
    if ctx.prop == "C13":
        return gen_c13(ctx)
    return gen_c20(ctx)


# ---------------------------------------------------------------- execution

def crash_site(stderr):
    for line in stderr.splitlines():
        m = re.match(r"\s*#\d+ 0x[0-9a-f]+ in (.+?) (/\S+?):(\d+)", line)
        if m and "/src/" in m.group(2) and "sanitizer" not in m.group(2):
            return re.sub(r"\(.*$", "", m.group(1))
    m = re.search(r"(\S+\.(?:cxx|h|I)):\d+:\d+: runtime error", stderr)
    if m:
        return os.path.basename(m.group(1))
    return "unknown"


def execute(plan):
    res = _ask(plan["build"], plan)
    violations, harness_faults = [], []
    focus = plan["focus"]
    done = res.get("done")
    stats = done["stats"] if done else {}
    if res.get("harness_error"):
        harness_faults.append("dbworker: " + res["harness_error"][-700:])
    elif done is None:
        last = res.get("last") or {}
        stderr = res.get("stderr", "")
        if res.get("timeout"):
            outcome, site = "timeout", "timeout"
        elif "signal" in res:
            outcome = "signal:%d" % res["signal"]
            site = crash_site(stderr) if plan["build"] == "san" else "rel-build"
        else:
            outcome = "exit:%s" % res.get("exit")
            site = crash_site(stderr)
            if res.get("exit") == 3 and "Traceback" in stderr and "Sanitizer" not in stderr:
                harness_faults.append("dbworker child raised: " + stderr[-700:])
        if not harness_faults:
            if "stack-overflow" in stderr:
                outcome = "stack-overflow"
            op = last.get("op")
            prop = focus
            if op == "uniq":
                prop = "C20"
            first = next((l for l in stderr.splitlines() if "ERROR" in l or "runtime error" in l or "terminate" in l or "what()" in l), "")[:200]
            violations.append({"property": prop, "class": "crash", "key": {"op": op, "site": site},
                               "msg": "library died (%s) during op #%s %s of history %s; innermost repository frame: %s; %s" %
                                      (outcome, last.get("at"), op, json.dumps({k: plan[k] for k in ("universe", "faults", "ops")}, sort_keys=True)[:500], site, first)})
    else:
        violations = done["violations"]
    # one violation per key per run
    seen, uniq = set(), []
    for v in violations:
        k = v["property"] + json.dumps(v["key"], sort_keys=True)
        if k not in seen:
            seen.add(k)
            uniq.append(v)
    kinds = sorted(set(f["kind"] for f in plan["faults"].values()))
    shape = ",".join(o["op"] for o in plan["ops"])
    abstract = "%s|k=%s|%s|%s|%s" % (focus, plan["universe"].get("k", len(plan["universe"].get("real", []))), "+".join(kinds) or "nofault", shape,
                                    ",".join(sorted(v["class"] for v in uniq)) or "ok")
    h = runner.sha(json.dumps([plan, [(v["property"], v["key"]) for v in uniq], {k: stats.get(k) for k in ("ops", "merges", "failed_loads", "verified_entities")}], sort_keys=True))
    return {"violations": uniq, "harness_faults": harness_faults, "abstract": abstract, "hash": h,
            "nontrivial": bool(plan["faults"]) or len(plan["ops"]) > 2, "stats": stats, "fault_kinds": kinds, "build": plan["build"]}


def shrink(plan, fails):
    from ..core import shrink as S
    best = plan
    # fewer operations (registrations of libraries that do not matter, intermediate queries)
    ops = S.ddmin(best["ops"], lambda o: bool(o) and fails(dict(best, ops=o)), budget=40)
    if ops and fails(dict(best, ops=ops)):
        best = dict(best, ops=ops)
    # fewer faults
    for k in sorted(best["faults"]):
        f2 = {a: b for a, b in best["faults"].items() if a != k}
        cand = dict(best, faults=f2)
        if fails(cand):
            best = cand
    # smaller universe
    u = best["universe"]
    if "seed" in u:
        for size in (1, 2, 3):
            if size < u.get("size", 4):
                cand = dict(best, universe=dict(u, size=size))
                if fails(cand):
                    best = cand
                    break
    return best


class Cov:
    def __init__(self, ctx):
        self.ctx = ctx
        self.n = 0
        self.abstracts = set()
        self.sums = {}
        self.fault_kinds = {}
        self.fired = {}
        self.batches = {}
        self.builds = {}
        self.samples = []

    def add(self, p, r):
        self.n += 1
        if r["nontrivial"]:
            self.abstracts.add(r["abstract"])
        st = r["stats"]
        for k in ("ops", "api_calls", "merges", "ambiguous_merges", "failed_loads", "lookups", "uniq_lookups", "verified_entities"):
            self.sums[k] = self.sums.get(k, 0) + (st.get(k) or 0)
        for k in r["fault_kinds"]:
            self.fault_kinds[k] = self.fault_kinds.get(k, 0) + 1
        for k, v in (st.get("faults_fired") or {}).items():
            self.fired[k] = self.fired.get(k, 0) + v
        for b in st.get("lazy_batches") or []:
            self.batches[str(b)] = self.batches.get(str(b), 0) + 1
        self.builds[r["build"]] = self.builds.get(r["build"], 0) + 1
        if len(self.samples) < 4 and (self.n % 211 == 1):
            self.samples.append(p)

    def finish(self):
        prop = self.ctx.prop
        rule = {
            "C12": "one case = one history over 1-3 database files: contents from the seeded generator (every field, all flag bits, adversarial strings, formats 3.0-3.3, optional alternate names) or written by the real interrogate; "
                   "faults: file torn at an offset (every offset of the small generated files; thorough: of all generated files and two real files), damaged version / identifier header lines, identifier mismatch with the registering module, stale index range, missing file, directory, k-th read error, short reads; "
                   "oracle: write(load(F)) byte-identical, every query equals the record, failed loads set the flag and leave nothing visible; non-trivial = a fault was planned or the history has more than two operations; "
                   "distinct = distinct (k, fault kinds, operation shape, verdict) tuples",
            "C13": "one case = one history: a seeded universe of k in 1..5 libraries generated jointly (types shared by true name: forward/forward-global/full/full-global per library, duplicated wrapper types, cross references through every index field) or the real 3-library pipeline, "
                   "a registration order (all k! for k<=3, sampled above), a registration style (request_database / request_module with ranges, mixed), an interleaving shape (one batch, one at a time with verification, lookup-register-lookup, counts between, two batches), faults on at most half of the files; "
                   "oracle after every verification point: colour-refined (3 rounds) multiset of the real merged database equals the reference model's, enumerations, lookups, module ranges, error flag; distinct = distinct (k, fault kinds, operation shape, verdict) tuples",
            "C20": "the C13 histories with a full totality sweep (every interface function x every index in [-2, next+2] and extreme ints x every position in [-1, count+1] and extreme ints; values checked against the record or the neutral value), "
                   "unique-name lookups for every stored name and absent names before / between / after every key, names of length 0..3, unknown library hashes, 10 KB names, on module definitions with unique-name tables of every size 0..n and function-pointer tables shorter / equal / longer than the range; "
                   "distinct = distinct (k, fault kinds, operation shape, verdict) tuples",
        }[prop]
        out = {
            "evaluations": self.n,
            "distinct_nontrivial": len(self.abstracts),
            "rule": rule,
            "samples": self.samples or [{"note": "no sample retained"}],
            "exhaustive": False,
            "exhaustive_note": "C12: torn-file offsets are enumerated completely for the files named in the rule; everything else is seeded sampling" if prop == "C12" else "seeded sampling",
            "totals": self.sums, "histories_by_planned_fault_kind": self.fault_kinds, "shim_faults_fired": self.fired,
            "lazy_load_batch_sizes": self.batches, "histories_by_build": self.builds,
            "simulated_time_covered": "none: the run-time library reads no clock",
            "distinct_interleavings_measure": "distinct (k, fault kinds, operation-kind sequence, verdict) tuples: %d" % len(self.abstracts),
        }
        return out

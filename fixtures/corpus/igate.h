#define BEGIN_PUBLISH __begin_publish
#define END_PUBLISH __end_publish
#define PUBLISHED __published
#define EXTENSION(x) __extension x
#define BLOCKING __blocking
class Node {
PUBLISHED:
  Node();
  BLOCKING int wait_for(double seconds);
  EXTENSION(int ext_method(int a) const);
  int get_num_children() const;
  Node *get_child(int n) const;
  __make_seq(get_children, get_num_children, get_child);
  __make_seq_property(children, get_num_children, get_child);
  bool has_tag(const char *key) const;
  const char *get_tag(const char *key) const;
  void set_tag(const char *key, const char *value);
  void clear_tag(const char *key);
  __make_map_property(tags, has_tag, get_tag, set_tag, clear_tag);
  int get_x() const;
  void set_x(int x);
  bool has_x() const;
  void clear_x();
  __make_property2(x, has_x, get_x, set_x, clear_x);
  [[deprecated("use wait_for")]] int old_wait();
public:
  int hidden();
};
BEGIN_PUBLISH
int published_function(Node *node, int flags = 0x10 | 0x01);
enum PublishedEnum { PE_a = 1, PE_b = PE_a << 3 };
END_PUBLISH
int unpublished_function();

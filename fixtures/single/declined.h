// Declarations interrogate declines to record (it warns or silently skips them).
// Used by dbsim: a database written by interrogate must not count entries it does not have.
#ifndef DECLINED_H
#define DECLINED_H

template<class T> class FreeTmpl { public: T v; };

class Outer {
__published:
  Outer();
  template<class T> class Tmpl { public: T v; };
  class Plain { __published: int f(); };
  struct { int anon_member; } anon_field;
  typedef FreeTmpl<int> IntTmpl;
  typedef Tmpl<Outer> SelfTmpl;
  enum { anon_a, anon_b };
  enum Named { n_a = 4 };
  template<class T> T tmpl_method(T a);
  int takes_rvalue(Outer &&other);
  int get_num() const;
  class Fwd;
  union U { int a; float b; };
};

class Bag {
__published:
  Bag();
  int get_num_things() const;
  int get_thing(float key) const;
  __make_seq(get_things, get_num_things, get_thing);
  int get_val(int which) const;
  __make_property(val, get_val);
  int get_ok() const;
  __make_property(ok, get_ok);
  void set_only(int v);
  __make_property(wo, set_only);
  static int s_count;
  int &ref_member;
  const int const_member;
  int arr_member[4];
  int unsized_tail[];
};

class Derived : public Bag, public FreeTmpl<int>, private Outer {
__published:
  Derived();
  operator int () const;
  operator FreeTmpl<float> () const;
  int operator [] (int n) const;
  int &operator [] (int n);
  void operator ++ ();
};

// members of function type: the builder hands out a type index for the function type and then drops it
typedef void DeclinedCallback(int);
struct Callbacks {
__published:
  Callbacks();
  void (*on_event)();
  DeclinedCallback *on_click;
  int (Bag::*member_fn)(int) const;
  int user_data;
};

__begin_publish
extern int declined_arr[];
extern FreeTmpl<int> declined_tmpl_var;
template<class T> T declined_tmpl_func(T a);
int declined_variadic(int n, ...);
__end_publish

#endif

#!/bin/bash
# tools/mutant.sh <property> <mutant-dir> <worktree> [tier]
# Confirms a seeded defect (compiles, suite passes, demo fails with / passes without) in a scratch
# worktree and runs ./check <property> against that worktree (VERIF_REPO).  Prints a summary line.
set -u
P=$1; M=$2; WT=$3; TIER=${4:-quick}
cd "$WT" || exit 9
git checkout -q -- . ; git checkout -q --detach "$(git -C /repo rev-parse HEAD)" || exit 9
bld() { cmake -G Ninja -B _build -DCMAKE_BUILD_TYPE=RelWithDebInfo -DCMAKE_CXX_FLAGS=-Wno-error -DCMAKE_C_FLAGS=-Wno-error -DBUILD_SHARED_LIBS=ON >/dev/null 2>&1 && cmake --build _build >/dev/null 2>&1; }
bld || { echo "MUTANT $M: pristine build failed"; exit 9; }
bash "$M/demo.sh" "$WT" >/dev/null 2>&1; d0=$?
git apply "$M/patch.diff" || { echo "MUTANT $M: patch does not apply"; exit 9; }
bld || { echo "MUTANT $M: patched build failed"; git checkout -q -- .; exit 9; }
t=$(ctest --test-dir _build -j8 2>&1 | grep -c "100% tests passed, 0 tests failed out of 10")
bash "$M/demo.sh" "$WT" >/dev/null 2>&1; d1=$?
cd /verif
VERIF_REPO="$WT" ./check "$P" --tier "$TIER" --no-evidence > "$M/check-$TIER.log" 2>&1; c=$?
echo "MUTANT $M: demo_pristine=$d0 tests_ok=$t demo_patched=$d1 check_${TIER}_exit=$c $(grep -c '^VIOLATION' "$M/check-$TIER.log") violation line(s)"
cd "$WT" && git checkout -q -- .

#!/usr/bin/env python3
"""tools/keep_mutant.py <property> <mutant-dir> <id> <detected: quick|thorough|missed> <needs...>
Copies a confirmed seeded defect into /verif/seeded/<id>/ with meta.json."""
import json, os, shutil, sys
prop, mdir, mid, detected = sys.argv[1:5]
needs = " ".join(sys.argv[5:])
dst = os.path.join("/verif/seeded", mid)
os.makedirs(dst, exist_ok=True)
for f in ("patch.diff", "demo.sh", "notes.md"):
    shutil.copy(os.path.join(mdir, f), dst)
for f in os.listdir(mdir):
    if f not in ("patch.diff", "demo.sh", "notes.md") and not f.startswith("check-") and os.path.isfile(os.path.join(mdir, f)):
        shutil.copy(os.path.join(mdir, f), dst)
log = ""
for t in ("quick", "thorough"):
    p = os.path.join(mdir, "check-%s.log" % t)
    if os.path.exists(p):
        lines = [l for l in open(p).read().splitlines() if l.startswith(("VIOLATION", "check ", "HARNESS", "  violation class"))]
        log += "\n".join(l[:300] for l in lines[:12]) + "\n"
meta = {
    "property": prop,
    "origin": "independent sub-agent given only the property text and a scratch worktree",
    "needs_to_manifest": needs,
    "confirmed": "tools/mutant.sh: applies to /repo HEAD in a scratch worktree, builds, ctest 10/10 pass, demo.sh fails with the patch and passes without",
    "ran": "VERIF_REPO=<scratch worktree with the patch> ./check %s --tier quick|thorough" % prop,
    "detected_by_check": detected,
    "check_output_excerpt": log.strip().splitlines(),
}
json.dump(meta, open(os.path.join(dst, "meta.json"), "w"), indent=1)
print("kept", dst)

"""C16 -- module initialisation registers every library once, base classes
first.  k producers -> interrogate_module with seeded argument orders,
dependency graphs and load faults."""
import itertools
import json
import os
import re

from ..core import build, runner
from ..core.rng import Rng, run_rng, fnv1a
from ..model import idb_format as F, idb_model
from . import common

NAME = "modsim"
LEVEL = {"C16": "exploration"}
ASSUMPTIONS = [
    "all libraries on a command line belong to the module being generated (the configuration build systems use); databases of another module on the same command line are left out because the statement does not say what should happen to them",
    "the dependency graph the order is checked against is derived independently from the database files (independent reader + reference merge model), not from the tool",
    "generated module code is inspected as text (RegisterTypes / LibraryDef array / BuildInstants sequences), never compiled",
]
REAL_VS_STUB = {
    "real": ["interrogate_module", "interrogate (producers, real-header variant)", "libinterrogatedb loader and merge inside interrogate_module", "tmpfs files"],
    "stub": ["producers of the synthetic variant (independent .in writer)", "the build system choosing the argument order (scheduler)", "producer crashes (represented by the file state they leave: missing / torn / wrong version)"],
}

MODULE = "mod"
REG = re.compile(r"^\s*Dtool_(\w+)_RegisterTypes\(\);", re.M)
BLD = re.compile(r"^\s*Dtool_(\w+)_BuildInstants\(module\);", re.M)
DEFS = re.compile(r"const LibraryDef \*defs\[\] = \{([^}]*)\};")
EXT = re.compile(r"^extern void Dtool_(\w+)_RegisterTypes\(\);", re.M)


def setup(ctx):
    if not ctx.no_build:
        build.ensure_shims()
        build.ensure("rel", ("interrogate", "interrogate_module"))


# ---------------------------------------------------------------- graphs

def gen_graph(rng, k, kind):
    """Returns a set of edges (u, v): library u depends on library v."""
    edges = set()
    order = rng.shuffle(range(k))
    if kind == "chain":
        for a, b in zip(order, order[1:]):
            edges.add((b, a))
    elif kind == "fan":
        # every other library depends on one library
        for x in order[1:]:
            edges.add((x, order[0]))
    elif kind == "dag":
        for i in range(k):
            for j in range(i):
                if rng.chance(2, 5):
                    edges.add((order[i], order[j]))
    elif kind == "diamond" and k >= 4:
        a, b, c, d = order[:4]
        edges |= {(b, a), (c, a), (d, b), (d, c)}
        for x in order[4:]:
            edges.add((x, rng.choice(order[:4])))
    elif kind == "forest":
        for i in range(1, k):
            if rng.chance(1, 2):
                edges.add((order[i], order[rng.below(i)]))
    elif kind == "cycle2" and k >= 2:
        a, b = order[:2]
        edges |= {(a, b), (b, a)}
        for x in order[2:]:
            if rng.chance(1, 2):
                edges.add((x, rng.choice([a, b])))
            else:
                edges.add((rng.choice([a, b]), x))
    elif kind == "cycleN" and k >= 3:
        n = rng.range(3, k)
        cyc = order[:n]
        for i in range(n):
            edges.add((cyc[i], cyc[(i + 1) % n]))
        for x in order[n:]:
            # tails into and out of the cycle, and an outside library depending on two cycle members
            r = rng.below(4)
            if r == 0:
                edges.add((x, rng.choice(cyc)))
            elif r == 1:
                edges.add((rng.choice(cyc), x))
            else:
                # an outside library depending on two cycle members (adjacent ones half of the time)
                if rng.chance(1, 2):
                    j = rng.below(n)
                    pair = [cyc[j], cyc[(j + 1) % n]]
                else:
                    pair = rng.sample(cyc, 2)
                for c in pair:
                    edges.add((x, c))
    elif kind == "cycle-out" and k >= 4:
        # a cycle plus outside libraries that each depend on two adjacent cycle members; node 0 is an outsider
        # (execute() gives node 0 the alphabetically first name half of the time: the tool walks libraries by name)
        n = rng.range(3, k - 1)
        cyc = rng.shuffle(range(1, k))[:n]
        if rng.chance(1, 2):
            cyc = sorted(cyc)
        for i in range(n):
            edges.add((cyc[i], cyc[(i + 1) % n]))
        for x in [y for y in range(k) if y not in cyc]:
            j = rng.below(n)
            edges.add((x, cyc[j]))
            edges.add((x, cyc[(j + 1) % n]))
    elif kind == "dense-cycle" and k >= 6:
        # a layered acyclic set in which every library depends on all later ones, plus one 2-cycle they all lead to
        a, b = order[0], order[1]
        rest = order[2:]
        edges |= {(a, b), (b, a)}
        for i, x in enumerate(rest):
            for y in rest[i + 1:]:
                edges.add((x, y))
        edges.add((rest[-1], a))
    elif kind == "sccs" and k >= 4:
        a, b, c, d = order[:4]
        edges |= {(a, b), (b, a), (c, d), (d, c), (c, a)}
        for x in order[4:]:
            edges.add((x, rng.choice([a, b, c, d])))
    elif kind == "hidden-chain":
        return gen_graph(rng, k, rng.choice(["chain", "dag", "forest"]))
    else:
        return gen_graph(rng, k, "dag")
    return edges


def lib_names(rng, k):
    names = set()
    while len(names) < k:
        names.add("lib" + "".join(rng.choice("abcdefghijklmnopqrstuvwxyz") for _ in range(rng.range(2, 5))))
    names = sorted(names)
    r = rng.below(4)
    if r == 0:
        return names                      # node order = name order
    if r == 1:
        return names[::-1]
    return rng.shuffle(names)


def _topo(k, edges):
    """Topological order (dependencies first) or None when the graph has a cycle."""
    deps = {u: set(v for (a, v) in edges if a == u) for u in range(k)}
    out = []
    while len(out) < k:
        ready = sorted(u for u in range(k) if u not in out and deps[u] <= set(out))
        if not ready:
            return None
        out.extend(ready)
    return out


def real_headers(rng, names, edges, funcs_only, force_hidden=False, force_shared=False):
    funcs_only, enum_only, consts_only = (tuple(funcs_only) + (set(),))[:3] if isinstance(funcs_only, tuple) else (funcs_only, set(), set())
    """One header per library.  Layout: an independent base class first, then the includes of every
    dependency, then the classes/typedefs that realise the edges -- this supports arbitrary graphs, cycles included.
    In acyclic graphs a class may also derive from (or name) a *derived* class of the dependency, so that
    inheritance chains span three and more libraries."""
    k = len(names)
    how = {e: ("derive" if force_hidden else ("typedef" if force_shared else rng.choice(["derive", "derive", "typedef", "both"]))) for e in sorted(edges)}
    order = _topo(k, edges)
    acyclic = order is not None
    classes = {u: ["%s_K0" % names[u].capitalize()] for u in range(k)}
    hidden = {u: [] for u in range(k)}       # classes without published members, which other libraries may derive from as well
    pub_lib = {"%s_K0" % names[u].capitalize(): u for u in range(k)}   # class name -> library of its nearest published ancestor-or-self
    intent = set()                           # (u, v): library u has a class deriving from / a typedef of a published class of library v
    shared_td = {}                           # v -> (typedef name, class) first declared for a class of library v
    shared_intent = set()                    # the (u, v) that exist only through a typedef another library declares identically
    files = {}
    for u in (order if acyclic else range(k)):
        U = names[u].capitalize()
        out = ["#ifndef %s_H" % U.upper(), "#define %s_H" % U.upper()]
        deps = sorted(v for (a, v) in edges if a == u)
        if u in consts_only:
            out += ["__begin_publish", "#define %s_MAX_THINGS 42" % U.upper(), "#define %s_FLAG 0x10" % U.upper(), "__end_publish"]
        elif u in enum_only:
            out += ["__begin_publish", "enum %s_Enum { %s_a = 1, %s_b = 2 };" % (U, U, U), "__end_publish"]
        elif u in funcs_only:
            out += ["__begin_publish", "int %s_only_function(int a);" % names[u], "__end_publish"]
        else:
            out += ["%s %s_K0 {" % (rng.choice(["class", "class", "struct"]), U), "__published:", "  %s_K0();" % U, "  int get_%s() const;" % names[u]]
            pub_lib["%s_K0" % U] = u
            if rng.chance(1, 2):
                out += ["  int get_num_parts() const;", "  int get_part(int n) const;", "  __make_seq(get_parts, get_num_parts, get_part);"]
            out.append("};")
            for v in deps:
                out.append('#include "%s.h"' % names[v])
            used = []
            for n, v in enumerate(deps):
                h = how[(u, v)]
                base = rng.choice(classes[v]) if acyclic else classes[v][0]
                if h in ("derive", "both"):
                    if acyclic and hidden[v] and rng.chance(1, 3):
                        # derive from an unpublished intermediate class of the *other* library: only that library's
                        # database records what the intermediate class derives from
                        base = rng.choice(hidden[v])
                    if force_hidden or rng.chance(1, 2):
                        # the inheritance goes through an intermediate class that publishes nothing
                        out += ["class %s_H%d : public %s {" % (U, n, base), "public:", "  int hidden_%d();" % n, "};"]
                        pub_lib["%s_H%d" % (U, n)] = pub_lib[base]
                        if rng.chance(1, 3):
                            # a second class without published members that this library never mentions again: only a
                            # library that derives from it will record it at all
                            out += ["class %s_X%d : public %s {" % (U, n, base), "public:", "  int lonely_%d();" % n, "};"]
                            pub_lib["%s_X%d" % (U, n)] = pub_lib[base]
                            hidden[u].append("%s_X%d" % (U, n))
                        base = "%s_H%d" % (U, n)
                        hidden[u].append(base)
                    kw = rng.choice(["class", "struct", "struct"])
                    # "struct D : B" inherits publicly whatever B is; the access specifier is left out for some of them
                    acc = "" if (kw == "struct" and rng.chance(1, 3)) else "public "
                    out += ["%s %s_D%d : %s%s {" % (kw, U, n, acc, base), "__published:", "  %s_D%d();" % (U, n), "  int d%d() const;" % n, "};"]
                    classes[u].append("%s_D%d" % (U, n))
                    pub_lib["%s_D%d" % (U, n)] = u
                    if pub_lib[base] != u:
                        intent.add((u, pub_lib[base]))
                if h in ("typedef", "both") and acyclic and v in shared_td and (force_shared or rng.chance(1, 2)):
                    # the very typedef another library has already declared for a class of v (same name, same class): the two
                    # records are one type once the databases are merged
                    tname, target, first = shared_td[v]
                    out.append("typedef %s %s;" % (target, tname))
                    used.append(tname)
                    intent.add((u, v))
                    shared_intent.add((u, v))
                    shared_intent.add((first, v))      # whichever of the two owns the merged record, the other one loses it
                elif h in ("typedef", "both"):
                    target = rng.choice(classes[v]) if acyclic else classes[v][0]
                    out.append("typedef %s %s_T%d;" % (target, U, n))
                    intent.add((u, v))
                    shared_td.setdefault(v, ("%s_T%d" % (U, n), target, u))
                    if rng.chance(1, 2):
                        # a second level, and a use in a published signature: that is what makes interrogate record the
                        # typedef, and the generated library code then adds it to the module as a name of the other library's class
                        out.append("typedef %s_T%d %s_TT%d;" % (U, n, U, n))
                        used.append("%s_TT%d" % (U, n))
                    else:
                        used.append("%s_T%d" % (U, n))
            # a typedef of a class of a library that depends on this one, declared in that library's forward header and merely
            # mentioned here: it must not make this library depend on that one
            for w in sorted(a for (a, b) in edges if b == u):
                if acyclic and rng.chance(1, 3):
                    W = names[w].capitalize()
                    files["%s/%s_fwd.h" % (names[w], names[w])] = "#ifndef %s_FWD_H\n#define %s_FWD_H\nclass %s_K0;\ntypedef %s_K0 %s_K0Alias;\n#endif\n" % (W.upper(), W.upper(), W, W, W)
                    out.insert(2, '#include "%s_fwd.h"' % names[w])
                    used.append("%s_K0Alias" % W)
            # a publish block that ends: a file-scope "__published:" would stay in effect for whatever includes this header
            out += ["__begin_publish", "int %s_function(int a);" % names[u]] + ["%s *use_%s(int a);" % (t, t.lower()) for t in used] + ["__end_publish"]
        out.append("#endif")
        files["%s/%s.h" % (names[u], names[u])] = "\n".join(out) + "\n"
    global LAST_INTENT, LAST_SHARED, LAST_USING
    LAST_INTENT = intent
    LAST_SHARED = shared_intent
    LAST_USING = set()
    return files


def using_headers(names):
    """The fixed scenario of the repaired finding "base-named-through-using-declaration": library 1 derives from a class of
    library 0 that lives in a namespace (library 0 publishes it through a global typedef: interrogate does not scan namespaces
    by itself) and that library 1 names through a using-declaration."""
    z, a = names[0], names[1]
    Z, A = z.capitalize(), a.capitalize()
    files = {
        "%s/%s.h" % (z, z): "#ifndef %s_H\n#define %s_H\nnamespace NsU {\nclass %s_NB {\n__published:\n  %s_NB();\n  int get_z() const;\n};\n}\ntypedef NsU::%s_NB %s_NBT;\n"
                            "__begin_publish\nint %s_function(int a);\n__end_publish\n#endif\n" % (Z.upper(), Z.upper(), Z, Z, Z, Z, z),
        "%s/%s.h" % (a, a): "#ifndef %s_H\n#define %s_H\n#include \"%s.h\"\nusing NsU::%s_NB;\nclass %s_D : public %s_NB {\n__published:\n  %s_D();\n  int d() const;\n};\n"
                            "__begin_publish\nint %s_function(int a);\n__end_publish\n#endif\n" % (A.upper(), A.upper(), z, Z, A, Z, A, a),
    }
    global LAST_INTENT, LAST_SHARED, LAST_USING
    LAST_INTENT = {(1, 0)}
    LAST_SHARED = set()
    LAST_USING = {(1, 0)}
    return files


def synth_dbs(rng, names, edges, funcs_only):
    """Synthetic databases for the same graph shape (cheap, allows larger graphs)."""
    funcs_only, enum_only, consts_only = (tuple(funcs_only) + (set(),))[:3] if isinstance(funcs_only, tuple) else (funcs_only, set(), set())
    k = len(names)
    dbs = []
    for u in range(k):
        U = names[u]
        deps = sorted(v for (a, v) in edges if a == u)
        fn = {1: {"name": ("%s_f" % U).encode(), "alt_names": [], "flags": 1, "class": 0, "scoped_name": ("%s_f" % U).encode(),
                  "c_wrappers": [], "python_wrappers": [], "comment": b"", "prototype": b""}}
        types = {}
        idx = 2

        def mk(name, true, flags, wrapped=0, derivs=()):
            return {"name": name.encode(), "alt_names": [], "flags": flags, "scoped_name": name.encode(), "true_name": true.encode(),
                    "outer_class": 0, "atomic_token": 0, "wrapped_type": wrapped, "array_size": 1, "constructors": [], "destructor": 0,
                    "elements": [], "methods": [], "make_seqs": [], "casts": [], "derivations": [{"flags": 0, "base": b, "upcast": 0, "downcast": 0} for b in derivs],
                    "enum_values": [], "nested_types": [], "comment": b""}
        manifests = {}
        if u in consts_only:
            fn = {}
            manifests = {1: {"name": ("%s_MAX" % U).encode(), "alt_names": [], "flags": 0x4, "int_value": 42, "type": 0, "getter": 0, "definition": b"42"}}
            idx = 2
        elif u in enum_only:
            fn = {}
            idx = 1
            types[idx] = mk("%s_Enum" % U, "%s_Enum" % U, 0x1 | 0x80000 | F.TF_FULLY_DEFINED)
            types[idx]["enum_values"] = [{"name": b"a", "scoped_name": b"a", "comment": b"", "value": 1}]
            idx += 1
        elif u not in funcs_only:
            types[idx] = mk("%s_K0" % U, "%s_K0" % U, 0x1 | 0x800 | F.TF_FULLY_DEFINED)
            idx += 1
        for n, v in enumerate(deps):
            V = names[v]
            # the dependency as this library sees it: not global, either a forward reference or a full but incidental definition
            local = idx
            types[idx] = mk("%s_K0" % V, "%s_K0" % V, (0x800 | F.TF_FULLY_DEFINED) if rng.chance(1, 2) else 0x800)
            idx += 1
            h = rng.choice(["derive", "typedef", "both"])
            if h in ("derive", "both"):
                types[idx] = mk("%s_D%d" % (U, n), "%s_D%d" % (U, n), 0x1 | rng.choice([0x800, 0x400]) | F.TF_FULLY_DEFINED, derivs=[local])
                idx += 1
            if h in ("typedef", "both"):
                types[idx] = mk("%s_T%d" % (U, n), "%s_T%d" % (U, n), 0x1 | F.TF_TYPEDEF | F.TF_FULLY_DEFINED | 0x80, wrapped=local)
                idx += 1
        seqs = {}
        if fn and types and rng.chance(1, 2):
            # a make_seq record: the last section of the file, so that a tear near the end falls inside it
            seqs[idx] = {"name": ("get_%s_parts" % U).encode(), "alt_names": [], "length_getter": 1, "element_getter": 1,
                         "scoped_name": ("%s_K0::get_%s_parts" % (U, U)).encode(), "comment": b"a comment that is long enough to be torn in the middle"}
            first_type = min(types)
            types[first_type]["make_seqs"] = [idx]
            idx += 1
        dbs.append({"file_identifier": 7, "major": 3, "minor": 3, "library_name": U.encode(), "library_hash_name": b"hhhh", "module_name": MODULE.encode(),
                    "functions": fn, "wrappers": {}, "types": types, "manifests": manifests, "elements": {}, "make_seqs": seqs})
    return dbs


# ---------------------------------------------------------------- plans

LAST_INTENT = set()
LAST_SHARED = set()
LAST_USING = set()
KINDS = ["chain", "dag", "dag", "diamond", "forest", "cycle2", "cycleN", "cycle-out", "sccs", "hidden-chain"]


def generate(ctx):
    plans = []
    n = 400 if ctx.tier == "quick" else 12000
    for i in range(n):
        rng = run_rng(ctx.seed, NAME, i)
        variant = "real" if i % 3 else "synth"
        kind = rng.choice(KINDS)
        lo = {"chain": 2, "dag": 1, "diamond": 4, "forest": 2, "cycle2": 2, "cycleN": 4, "cycle-out": 4, "sccs": 5, "hidden-chain": 2}[kind]
        k = rng.range(lo, 6) if variant == "real" else rng.range(lo, 9)
        if variant == "synth" and i % 40 == 8:
            kind, k = "dense-cycle", rng.range(40, 46)
        if k <= 4:
            perms = list(itertools.permutations(range(k)))
            if ctx.tier == "quick" and len(perms) > 8:
                perms = rng.sample(perms, 8)
        elif k > 12:
            perms = [rng.shuffle(range(k)) for _ in range(2)]
        else:
            perms = [rng.shuffle(range(k)) for _ in range(24 if ctx.tier == "thorough" else 8)]
        fault = None
        if rng.chance(1, 4):
            fault = {"lib": rng.below(k), "kind": rng.choice(["missing", "torn", "torn", "torn-tail", "torn-tail", "version", "version", "isdir", "empty", "badnum", "badnum", "badnum"]), "back": rng.range(2, 60), "frac": rng.range(1, 99), "stale": rng.chance(1, 2),
                     "text": rng.choice(["3 4", "4 0", "2 3", "1 0", "2 9", "3 99"]), "value": rng.choice([-5, -1, 2000000000, 2147483647, -2147483648, 99999])}
        elif rng.chance(1, 8):
            fault = {"lib": None, "kind": "none", "stale": True}
        if kind == "dense-cycle":
            fault = None
        plans.append({"id": i, "variant": variant, "k": k, "graph": kind, "gseed": rng.next(), "perms": [list(p) for p in perms], "fault": fault,
                      "funcs_only": [x for x in range(k) if rng.chance(1, 10) and kind != "dense-cycle"], "enum_only": [x for x in range(k) if rng.chance(1, 10) and kind != "dense-cycle"],
                      "consts_only": [x for x in range(k) if rng.chance(1, 12) and kind != "dense-cycle"], "mode": rng.choice(["native"] * 5 + ["python", "c", "default"]), "extra": rng.choice([[], [], ["-python"], ["-track-interpreter"], ["-import", "other.mod"], ["-init", "extra_init"]]),
                      "foreign": (1 + rng.below(7)) if (variant == "synth" and kind != "dense-cycle" and rng.chance(1, 5)) else 0})
    # stratum of plain scenarios: every graph family in native mode without faults or member-less libraries, so that the
    # ordering clauses are exercised by each family in every batch however the dimensions above happen to combine
    base = len(plans)
    per = 8 if ctx.tier == "quick" else 150
    for ki, kind in enumerate(sorted(set(KINDS))):
        lo = {"chain": 2, "dag": 1, "diamond": 4, "forest": 2, "cycle2": 2, "cycleN": 4, "cycle-out": 4, "sccs": 5, "hidden-chain": 2}[kind]
        for j in range(per):
            rng = run_rng(ctx.seed, NAME + "/plain/" + kind, j)
            variant = "real" if j % 2 else "synth"
            k = rng.range(max(lo, 3), 6) if variant == "real" else rng.range(max(lo, 3), 8)
            if k <= 4:
                perms = list(itertools.permutations(range(k)))
                if ctx.tier == "quick" and len(perms) > 8:
                    perms = rng.sample(perms, 8)
            else:
                perms = [rng.shuffle(range(k)) for _ in range(24 if ctx.tier == "thorough" else 8)]
            plans.append({"id": base + ki * per + j, "variant": variant, "k": k, "graph": kind, "gseed": rng.next(), "perms": [list(p) for p in perms], "fault": None,
                          "funcs_only": [], "enum_only": [], "consts_only": [], "mode": "native", "extra": []})
    # the scenario of the repaired finding "base-named-through-using-declaration", in every batch whatever the seed
    rng = run_rng(ctx.seed, NAME + "/using-decl", 0)
    plans.append({"id": len(plans), "variant": "real", "k": 2, "graph": "fan", "gseed": rng.next(), "perms": [[0, 1], [1, 0]],
                  "fault": None, "funcs_only": [], "enum_only": [], "consts_only": [], "mode": "native", "extra": [], "force_using": True})
    # the scenario of the recorded finding "typedef-declared-by-two-libraries", in every batch whatever the seed
    rng = run_rng(ctx.seed, NAME + "/shared-typedef", 0)
    plans.append({"id": len(plans), "variant": "real", "k": 3, "graph": "fan", "gseed": rng.next(), "perms": [list(p) for p in itertools.permutations(range(3))],
                  "fault": None, "funcs_only": [], "enum_only": [], "consts_only": [], "mode": "native", "extra": [], "force_shared": True})
    return plans


def sccs(nodes, edges):
    """Tarjan.  Returns {node: component id}."""
    index, low, comp, stack, on = {}, {}, {}, [], set()
    counter = [0, 0]
    adj = {n: [] for n in nodes}
    for a, b in edges:
        adj[a].append(b)

    def visit(v):
        index[v] = low[v] = counter[0]
        counter[0] += 1
        stack.append(v)
        on.add(v)
        for w in adj[v]:
            if w not in index:
                visit(w)
                low[v] = min(low[v], low[w])
            elif w in on:
                low[v] = min(low[v], index[w])
        if low[v] == index[v]:
            while True:
                w = stack.pop()
                on.discard(w)
                comp[w] = counter[1]
                if w == v:
                    break
            counter[1] += 1
    for n in sorted(nodes):
        if n not in index:
            visit(n)
    return comp


def model_graph(dbs):
    """Libraries that must be referenced and the dependency edges, derived independently from the database files."""
    def choose(tn, cands):
        # equally qualified full definitions: the published (global) one is the definition; otherwise ambiguous
        g = [i for i, (pos, rec) in enumerate(cands) if rec["flags"] & F.TF_GLOBAL]
        return g[0] if g else 0
    mc, info = idb_model.combine([(i, db) for i, db in enumerate(dbs)], choose)
    libs = set()
    for i, f in mc.recs["functions"].items():
        lib = mc.owner[("functions", i)][0]
        if lib:
            libs.add(lib.decode())
    for i, man in mc.recs["manifests"].items():
        lib, mod = mc.owner[("manifests", i)]
        if lib and mod.decode() == MODULE:
            libs.add(lib.decode())      # published constants are added to the module by the library's BuildInstants
    edges = set()
    # "... or are typedefs of its classes": every top-level typedef the library declares (interrogate marks those global; a
    # typedef that another library's header declares and this one merely mentions is not), followed to the end of the chain
    for i, t in mc.recs["types"].items():
        lib, mod = mc.owner[("types", i)]
        if not (t["flags"] & F.TF_TYPEDEF) or not (t["flags"] & F.TF_GLOBAL) or (t["flags"] & F.TF_NESTED) or mod.decode() != MODULE or not lib:
            continue
        b, hops = t["wrapped_type"], 0
        while b in mc.recs["types"] and mc.recs["types"][b]["flags"] & F.TF_TYPEDEF and hops < 100:
            b, hops = mc.recs["types"][b]["wrapped_type"], hops + 1
        bt = mc.recs["types"].get(b)
        if bt is not None and bt["flags"] & F.TF_GLOBAL:
            bl = mc.owner[("types", b)][0]
            if bl and bl != lib:
                edges.add((lib.decode(), bl.decode()))
    for i, t in mc.recs["types"].items():
        lib, mod = mc.owner[("types", i)]
        if not (t["flags"] & F.TF_GLOBAL) or mod.decode() != MODULE or not lib:
            continue
        L = lib.decode()
        libs.add(L)
        targets = [d["base"] for d in t["derivations"]]
        seen = set()
        while targets:
            b = targets.pop()
            if b in seen:
                continue
            seen.add(b)
            bt = mc.recs["types"].get(b)
            if bt is None:
                continue
            if not (bt["flags"] & F.TF_GLOBAL):
                # an intermediate class that is not published itself: the classes *it* derives from are still base classes of t
                targets.extend(d["base"] for d in bt["derivations"])
                continue
            bl = mc.owner[("types", b)][0]
            if bl and bl.decode() != L:
                edges.add((L, bl.decode()))
    # a library that is not part of the module cannot be ordered
    edges = set(e for e in edges if e[0] in libs and e[1] in libs)
    return libs, edges


def parse_output(text):
    regs = REG.findall(text)
    blds = BLD.findall(text)
    defs = [re.findall(r"&(\w+)_moddef", d) for d in DEFS.findall(text)]
    exts = EXT.findall(text)
    return regs, blds, defs, exts


def execute(plan):
    rng = Rng(plan["gseed"])
    k = plan["k"]
    names = lib_names(rng, k)
    consts_only = set(plan.get("consts_only", []))
    enum_only = set(plan.get("enum_only", [])) - consts_only
    funcs_only = set(plan["funcs_only"]) - enum_only - consts_only
    # a library that contributes only free functions, or only a published enum, takes part in no edge
    edges = set(e for e in gen_graph(rng, k, plan["graph"]) if not ({e[0], e[1]} & (funcs_only | enum_only | consts_only)))
    funcs_only = (funcs_only, enum_only, consts_only)
    root = runner.fresh_dir("ms-%07d-%016x" % (os.getpid(), fnv1a(json.dumps(plan, sort_keys=True))))
    env = {"PATH": "/usr/bin:/bin", "LC_ALL": "C", "SOURCE_DATE_EPOCH": "1"}
    violations, harness_faults = [], []
    dbs = []
    os.makedirs(os.path.join(root, "db"))
    if plan["graph"] == "hidden-chain":
        # every edge goes through an unpublished intermediate class, and the libraries are named so that dependents sort first
        order = _topo(k, edges) or list(range(k))
        srt = sorted(names)
        names = list(names)
        for rank, u in enumerate(reversed(order)):
            names[u] = srt[rank]
    if plan["variant"] == "real":
        if plan.get("force_using"):
            files = using_headers(names)
            edges = {(1, 0)}
        else:
            files = real_headers(rng, names, edges, funcs_only, force_hidden=(plan["graph"] == "hidden-chain"), force_shared=bool(plan.get("force_shared")))
        for rel, text in files.items():
            p = os.path.join(root, "src", rel)
            os.makedirs(os.path.dirname(p), exist_ok=True)
            with open(p, "w") as f:
                f.write(text)
        for u in range(k):
            argv = [build.tool("rel", "interrogate"), "-od", "db/%s.in" % names[u], "-oc", "db/%s.cxx" % names[u], "-module", MODULE, "-library", names[u],
                    "-python-native", "-D__cplusplus", "-S" + common.PARSER_INC]
            for v in range(k):
                if v != u:
                    argv += ["-I", "src/" + names[v]]
            argv += ["-srcdir", "src/" + names[u], names[u] + ".h"]
            r = runner.run_tool(argv, cwd=root, env=env)
            if r.status != 0:
                harness_faults.append("producer %s failed: %s" % (names[u], r.stderr.decode()[-400:]))
                break
            dbs.append(F.parse(runner.read_file(os.path.join(root, "db", names[u] + ".in"))))
    else:
        dbs = synth_dbs(rng, names, edges, funcs_only)
        for u, db in enumerate(dbs):
            with open(os.path.join(root, "db", names[u] + ".in"), "wb") as f:
                f.write(F.serialise(db))
    foreign = None
    if plan.get("foreign") and plan["variant"] == "synth" and not harness_faults:
        # a database of ANOTHER module on the command line whose class is a base of one of this module's classes: it takes
        # no part in this module's initialisation (nothing to reference, nothing to order, no cycle to report)
        hosts = [u for u, db in enumerate(dbs) if any(t["flags"] & F.TF_GLOBAL and t["flags"] & 0x800 for t in db["types"].values())]
        if hosts:
            u = hosts[plan["foreign"] % len(hosts)]
            db = dbs[u]
            nxt = max([0] + [i for sec in F.SECTIONS for i in db[sec]]) + 1
            proto = next(t for t in db["types"].values() if t["flags"] & F.TF_GLOBAL and t["flags"] & 0x800)
            stub = dict(proto, name=b"Foreign_Base", scoped_name=b"Foreign_Base", true_name=b"Foreign_Base", flags=0x800, derivations=[], constructors=[], methods=[], destructor=0)
            der = dict(proto, name=("%s_DF" % names[u]).encode(), scoped_name=("%s_DF" % names[u]).encode(), true_name=("%s_DF" % names[u]).encode(),
                       derivations=[{"flags": 0, "base": nxt, "upcast": 0, "downcast": 0}], constructors=[], methods=[], destructor=0)
            db["types"][nxt] = stub
            db["types"][nxt + 1] = der
            with open(os.path.join(root, "db", names[u] + ".in"), "wb") as f:
                f.write(F.serialise(db))
            fdb = {"file_identifier": 77, "major": 3, "minor": 3, "library_name": b"libzzforeign", "library_hash_name": b"zzfo", "module_name": b"othermod",
                   "functions": {}, "wrappers": {}, "manifests": {}, "elements": {}, "make_seqs": {},
                   "types": {1: dict(proto, name=b"Foreign_Base", scoped_name=b"Foreign_Base", true_name=b"Foreign_Base", flags=0x1 | 0x800 | F.TF_FULLY_DEFINED,
                                     derivations=[], constructors=[], methods=[], destructor=0)}}
            with open(os.path.join(root, "db", "libzzforeign.in"), "wb") as f:
                f.write(F.serialise(fdb))
            dbs = dbs + [fdb]
            foreign = "db/libzzforeign.in"
    stats = {"module_runs": 0, "cyclic": 0, "fault": plan["fault"]["kind"] if plan["fault"] else "none", "orders": 0, "edges": 0, "libs": k}
    digests = []
    if not harness_faults:
        libs, medges = model_graph(dbs)
        stats["edges"] = len(medges)
        if plan["variant"] == "real":
            # what the headers say: every edge of the generated graph is a public derivation or a typedef used in a published
            # signature.  The ordering oracle takes its edges from the database files; an edge the producer failed to
            # record would make it blind, so it is checked here
            for (a, b) in sorted(LAST_INTENT):
                if names[a] in libs and names[b] in libs and (names[a], names[b]) not in medges:
                    if (a, b) in LAST_USING:
                        # the parser did not take "using NsU::X;" as introducing the class name X and dropped the derivation
                        # with a message and exit status 0 (repaired, DESIGN.md 13a; reported again if it returns)
                        violations.append({"property": "C16", "class": "edge-not-recorded", "key": {"kind": "base-named-through-using-declaration"},
                                           "msg": "%s derives from a class of %s that it names through a using-declaration; interrogate dropped the derivation (model edges %s)" %
                                                  (names[a], names[b], sorted(medges))})
                        continue
                    if (a, b) in LAST_SHARED:
                        # two libraries declare the same typedef: merged by true name, one record, one owner -- the other
                        # library's dependency is no longer visible to interrogate_module (known finding, DESIGN.md 13a)
                        violations.append({"property": "C16", "class": "edge-not-recorded", "key": {"kind": "typedef-declared-by-two-libraries"},
                                           "msg": "%s and another library both declare the same typedef of a class of %s; after the merge only one of them depends on %s (model edges %s)" %
                                                  (names[a], names[b], names[b], sorted(medges))})
                        continue
                    violations.append({"property": "C16", "class": "edge-not-recorded", "key": {"kind": "dependency-missing-from-databases"},
                                       "msg": "the headers make %s depend on %s, but the databases interrogate wrote do not say so (model edges %s)" %
                                              (names[a], names[b], sorted(medges))})
                    break
        comp = sccs(libs, medges)
        cyclic = len(set(comp.values())) < len(libs)
        stats["cyclic"] = 1 if cyclic else 0
        fault = plan["fault"]
        if fault and fault.get("lib") is not None:
            p = os.path.join(root, "db", names[fault["lib"]] + ".in")
            data = runner.read_file(p)
            if fault["kind"] == "missing":
                os.unlink(p)
            elif fault["kind"] == "isdir":
                os.unlink(p)
                os.makedirs(p)
            elif fault["kind"] == "empty":
                open(p, "wb").close()
            elif fault["kind"] == "version":
                a, _, rest = data.partition(b"\n")
                b, _, rest = rest.partition(b"\n")
                with open(p, "wb") as f:
                    f.write(a + b"\n" + fault.get("text", "3 4").encode() + b"\n" + rest)
            elif fault["kind"] == "torn-tail":
                # a tear near the end of the file (inside the last records), never one that removes only trailing whitespace
                cut = max(1, len(data) - fault.get("back", 10))
                while cut > 1 and not data[cut:].strip():
                    cut -= 1
                with open(p, "wb") as f:
                    f.write(data[:cut])
            elif fault["kind"] == "badnum":
                # one number of the file replaced (a flipped sign, a length far beyond the file): the file may still load --
                # then the content is simply different -- or not; what is demanded is a clean outcome either way
                toks = list(re.finditer(rb"(?<![\w.])-?\d+(?![\w.])", data))
                t = toks[(len(toks) * fault["frac"] // 100) % len(toks)]
                with open(p, "wb") as f:
                    f.write(data[:t.start()] + str(fault.get("value", -5)).encode() + data[t.end():])
            elif fault["kind"] == "torn":
                cut = max(1, len(data) * fault["frac"] // 100)
                # a cut that removes only trailing whitespace is not a fault
                if not data[cut:].strip():
                    cut = len(data) // 2
                with open(p, "wb") as f:
                    f.write(data[:cut])
        load_fault = bool(fault and fault.get("lib") is not None)
        verdicts = set()
        for perm in plan["perms"]:
            out_rel = "out/mod_module.cxx"
            os.makedirs(os.path.join(root, "out"), exist_ok=True)
            outp = os.path.join(root, out_rel)
            if os.path.exists(outp):
                os.unlink(outp)
            if fault and fault.get("stale"):
                with open(outp, "w") as f:
                    f.write("// stale module file of an earlier run\nDtool_libstale_RegisterTypes();\n")
            mode = plan.get("mode", "native")
            flags = {"native": ["-python-native"] + plan["extra"], "python": ["-python"], "c": ["-c"], "default": []}[mode]
            dbargs = ["db/%s.in" % names[u] for u in perm]
            if foreign:
                dbargs.insert(sum(perm) % (len(dbargs) + 1), foreign)
            argv = [build.tool("rel", "interrogate_module"), "-oc", out_rel, "-module", MODULE, "-library", MODULE] + flags + dbargs
            r = runner.run_tool(argv, cwd=root, env=env, wall=20)
            stats["module_runs"] += 1
            stats["orders"] += 1
            order_s = " ".join(names[u] for u in perm)
            text = runner.read_file(outp)
            where = "graph %s over %s edges %s, argument order [%s], fault %s" % (plan["graph"], names, sorted((names[a], names[b]) for a, b in edges), order_s, fault)
            if r.crashed:
                violations.append({"property": "C16", "class": "crash-or-hang", "key": {"kind": "timeout" if r.timeout else "crash"},
                                   "msg": "interrogate_module %s: %s" % (r.outcome(), where)})
                if r.timeout:
                    break       # one hang per scenario is enough; the other argument orders would each cost the full time limit
                continue
            if load_fault and fault["kind"] == "badnum":
                verdicts.add("badnum-rejected" if r.status != 0 else "badnum-accepted")
                if r.status != 0 and text is not None:
                    violations.append({"property": "C16", "class": "load-fault-output-left", "key": {"kind": "load-fault-output-left", "fault": fault["kind"]},
                                       "msg": "a damaged database made the tool exit %s but an output file is left behind: %s" % (r.status, where)})
                continue
            if load_fault:
                verdicts.add("fault")
                if r.status == 0:
                    violations.append({"property": "C16", "class": "load-fault-exit0", "key": {"kind": "load-fault-exit0", "fault": fault["kind"]},
                                       "msg": "a database failed to load but interrogate_module exited 0: %s" % where})
                if text is not None:
                    violations.append({"property": "C16", "class": "load-fault-output-left", "key": {"kind": "load-fault-output-left", "fault": fault["kind"]},
                                       "msg": "a database failed to load but an output file is left behind (%s): %s" % ("the stale one" if b"stale module file" in text else "new", where)})
                continue
            if r.status != 0 or text is None:
                violations.append({"property": "C16", "class": "no-fault-failure", "key": {"kind": "no-fault-failure"},
                                   "msg": "no load fault, yet status %s / output %s: %s; stderr %s" % (r.status, "missing" if text is None else "present", where, r.stderr.decode()[-200:])})
                continue
            if mode != "native":
                verdicts.add("other-mode")
                continue        # the initialisation order exists only in the -python-native table
            regs, blds, defs, exts = parse_output(text.decode("latin-1"))
            seqs = [regs[:len(regs) // 2], regs[len(regs) // 2:], blds[:len(blds) // 2], blds[len(blds) // 2:]] + defs + [exts]
            seq = seqs[0]
            if any(s != seq for s in seqs) or len(regs) % 2:
                violations.append({"property": "C16", "class": "sequences-disagree", "key": {"kind": "sequences-disagree"},
                                   "msg": "RegisterTypes / LibraryDef / BuildInstants sequences differ: %s; %s" % (seqs, where)})
                continue
            digests.append((order_s, seq))
            if sorted(seq) != sorted(libs):
                dup = len(seq) != len(set(seq))
                violations.append({"property": "C16", "class": "library-set", "key": {"kind": "duplicate" if dup else ("missing-library" if set(libs) - set(seq) else "extra-library")},
                                   "msg": "libraries referenced %s, expected exactly once each of %s: %s" % (seq, sorted(libs), where)})
                continue
            pos = {l: i for i, l in enumerate(seq)}
            for (a, b) in sorted(medges):
                if comp[a] == comp[b]:
                    continue        # an edge on a cycle may be the one that was broken
                if pos[b] > pos[a]:
                    violations.append({"property": "C16", "class": "order", "key": {"kind": "base-after-derived", "cyclic": cyclic},
                                       "msg": "%s depends on %s (not on a cycle) but is initialised first: order %s; model edges %s; %s" % (a, b, seq, sorted(medges), where)})
                    break
            if not cyclic and b"Circular dependency" in r.stderr:
                violations.append({"property": "C16", "class": "cycle-misreported", "key": {"kind": "cycle-reported-for-acyclic-graph"},
                                   "msg": "a circular dependency was reported although the dependency graph of the module's libraries is acyclic: %s" % where})
            if cyclic and b"Circular dependency" not in r.stderr:
                violations.append({"property": "C16", "class": "cycle-unreported", "key": {"kind": "cycle-unreported"},
                                   "msg": "the dependency graph has a cycle but no diagnostic was printed: %s" % where})
            verdicts.add("cyclic" if cyclic else "acyclic")
    common.cleanup(root)
    seen, uniq = set(), []
    for v in violations:
        kk = json.dumps(v["key"], sort_keys=True)
        if kk not in seen:
            seen.add(kk)
            uniq.append(v)
    abstract = "%s|%s|k=%d|%s|%s|%s" % (plan["variant"], plan["graph"], k, stats["fault"], "cyc" if stats["cyclic"] else "acyc",
                                       ",".join(sorted(v["class"] for v in uniq)) or "ok")
    h = runner.sha(json.dumps([plan, digests, [v["key"] for v in uniq]], sort_keys=True))
    return {"violations": uniq, "harness_faults": harness_faults, "abstract": abstract, "hash": h, "nontrivial": k > 1, "stats": stats}


def shrink(plan, fails):
    best = plan
    for perm in plan["perms"]:
        cand = dict(best, perms=[perm])
        if fails(cand):
            best = cand
            break
    if best["extra"]:
        cand = dict(best, extra=[])
        if fails(cand):
            best = cand
    if best["fault"] and best["fault"].get("stale"):
        cand = dict(best, fault=dict(best["fault"], stale=False))
        if fails(cand):
            best = cand
    return best


class Cov:
    def __init__(self, ctx):
        self.ctx = ctx
        self.n = 0
        self.abstracts = set()
        self.sums = {"module_runs": 0, "cyclic": 0, "orders": 0, "edges": 0}
        self.faults = {}
        self.graphs = {}
        self.samples = []

    def add(self, p, r):
        self.n += 1
        if r["nontrivial"]:
            self.abstracts.add(r["abstract"])
        for k in self.sums:
            self.sums[k] += r["stats"][k]
        self.faults[r["stats"]["fault"]] = self.faults.get(r["stats"]["fault"], 0) + 1
        g = "%s/%s" % (p["variant"], p["graph"])
        self.graphs[g] = self.graphs.get(g, 0) + 1
        if len(self.samples) < 3 and self.n % 17 == 1:
            self.samples.append(p)

    def finish(self):
        return {
            "evaluations": self.sums["module_runs"],
            "scenarios": self.n,
            "distinct_nontrivial": len(self.abstracts),
            "rule": "one scenario = k libraries (1-5 produced by the real interrogate from generated headers, or 1-8 synthetic databases) whose cross-library derivation/typedef graph is a seeded chain, DAG, diamond, forest, 2-cycle, long cycle with tails, or several SCCs; some libraries contribute only free functions; "
                    "every scenario is linked under all k! argument orders for k<=3 (a seeded sample of 8-24 above); a quarter of the scenarios have one database missing / torn / of a wrong version / a directory / empty, half of those with a stale module file pre-placed at the output path; "
                    "evaluations counts interrogate_module executions; non-trivial = k > 1; distinct = distinct (variant, graph kind, k, fault, cyclic, verdict) tuples",
            "samples": self.samples or [{"note": "none retained"}],
            "exhaustive": False,
            "totals": self.sums, "scenarios_by_fault": self.faults, "scenarios_by_graph": self.graphs,
            "simulated_time_covered": "none: no clock on this path",
            "distinct_interleavings_measure": "distinct abstract scenarios (see rule): %d" % len(self.abstracts),
        }

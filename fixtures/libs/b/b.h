// Library B: derives from A.
#ifndef B_H
#define B_H
#include "a.h"

#define B_FLAG 0x10

class BDerived : public ABase {
__published:
  BDerived();
  BDerived(const BDerived &copy);
  int get_extra() const;
  void set_extra(int extra, AColor color = AC_green);
  void take(ABase *base);
  void take(const BDerived &other);
  void take(int a, int b);
  static BDerived *make();
};

class BStandalone {
__published:
  BStandalone();
  const char *get_name() const;
  void set_name(const char *name);
  __make_property(name, get_name, set_name);
  AOther *get_other();
};

typedef BDerived BDerivedAlias;
class AForward {
__published:
  int forward_value() const;
};

__published:
BDerived *b_make_derived(ABase *from);
#endif

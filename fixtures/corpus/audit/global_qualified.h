struct ::T { T f(); };

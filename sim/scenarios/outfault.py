"""C19 -- a failed or incomplete output write is reported by a non-zero exit
status.  Every output channel x open/write/close fault at every k."""
import json
import os
import re
import sys

from ..core import build, runner
from ..core.rng import run_rng, fnv1a
from . import common

NAME = "outfault"
LEVEL = {"C19": "fault_enumeration"}
ASSUMPTIONS = [
    "the tools reach the kernel only through fopen64/open/write/writev/fclose/close of libc (verified by trace: every byte of every golden output is accounted for by traced writes)",
    "a fault is what the shim returns to libstdc++; the kernel itself is not modelled below that interface",
    "exit status and the bytes left at the requested output paths are the only observables a build system uses",
]
REAL_VS_STUB = {
    "real": ["interrogate (built from /repo working tree)", "interrogate_module (same)", "libstdc++ fstream/filebuf", "tmpfs files under the scratch root", "/dev/full"],
    "stub": ["kernel file layer at the libc boundary for fault points (libsimos.so)", "the build system (played by the scheduler)"],
}

WRITE_ERRNOS = ["ENOSPC", "EIO", "EDQUOT", "EFBIG"]
OPEN_ERRNOS = ["EACCES", "EROFS", "ENOSPC", "EMFILE"]
CLOSE_ERRNOS = ["EIO", "ENOSPC", "EDQUOT"]

JOBS = []       # filled by setup(); inherited by forked workers
GOLDEN = []     # per job: {"out": {ch: bytes}, "events": {ch: {"open": n, "write": n, "close": n, "sizes": [..]}}}
KINDS = ["rel"]
BIG_ALLOC = 1024     # bytes: what counts as a large allocation request for the allocation-fault points (thorough: 128)
ENV = {"PATH": "/usr/bin:/bin", "LC_ALL": "C", "SOURCE_DATE_EPOCH": "1700000000"}


def _mk_jobs(ctx):
    rng = run_rng(ctx.seed, NAME + "/jobs", 0)
    rich = common.read_fixture("single/rich.h")
    libs = common.libs_fixture()
    jobs = []
    for be in common.BACKENDS:
        jobs.append(common.igate_job("rich" + be, {"rich.h": rich}, ["rich.h"], be))
    jobs.append(common.igate_job("rich-oc", {"rich.h": rich}, ["rich.h"], "-python-native", channels=("oc",)))
    jobs.append(common.igate_job("rich-od", {"rich.h": rich}, ["rich.h"], "-c", channels=("od",)))
    jobs.append(common.igate_job("rich-oh", {"rich.h": rich}, ["rich.h"], "-python", channels=("oh",)))
    jobs.append(common.igate_job("rich-oc-od", {"rich.h": rich}, ["rich.h"], "-python-native", channels=("oc", "od"), opts=["-string", "-unique-names"]))
    jobs.append(common.igate_job("rich-fptrs", {"rich.h": rich}, ["rich.h"], "-python-native", opts=["-fptrs", "-unique-names"]))
    jobs.append(common.igate_job("rich-fptrs-c", {"rich.h": rich}, ["rich.h"], "-c", opts=["-fptrs", "-fnames", "-do-module"]))
    # the same job with -srcdir given before the (relative) output options
    j = common.igate_job("rich-srcdir-first", {"rich.h": rich}, ["rich.h"], "-python")
    a = j["argv"]
    i = a.index("-srcdir")
    j["argv"] = a[i:i + 2] + a[:i] + a[i + 2:]
    jobs.append(j)
    # seeded big headers: output sizes (hence number and boundaries of write calls) vary with the seed
    nbig = 2 if ctx.tier == "quick" else 6
    for i in range(nbig):
        n = rng.range(8, 40) if ctx.tier == "quick" else rng.range(8, 120)
        be = rng.choice(common.BACKENDS)
        opts = rng.subset(["-string", "-fnames", "-unique-names", "-promiscuous", "-nomangle", "-fptrs", "-do-module", "-refcount", "-true-names", "-spam"], 1, 3)
        if "-fnames" in opts and "-true-names" in opts:
            opts.remove("-true-names")
        if "-fnames" in opts and be == "-python-native":
            opts.remove("-fnames")
        jobs.append(common.igate_job("big%d" % i, {"big.h": common.big_header(rng.next(), n)}, ["big.h"], be, opts=opts))
    lj = common.igate_job("c", libs["c"]["files"], libs["c"]["main"], "-python-native", srcdir=libs["c"]["srcdir"], incs=libs["c"]["incs"])
    jobs.append(lj)
    # one of the project's own headers, everything exported: real code, large outputs
    own = os.path.join(build.REPO, "src", "interrogatedb", "interrogateType.h")
    if os.path.exists(own):
        with open(own, "rb") as f:
            data = f.read().decode("latin-1")
        incs = [os.path.join(build.REPO, "src", x) for x in ("interrogatedb", "dtoolutil", "dtoolbase")]
        jobs.append(common.igate_job("own-type", {"interrogateType.h": data}, ["interrogateType.h"], "-python-native", opts=["-promiscuous"], incs=incs))
    return jobs, libs


def _decoys(job, root):
    """The channel directories also exist under the source directory: a tool that resolved its (relative) output paths
    after changing into -srcdir would write there -- and must then not report success for the requested paths."""
    if job["tool"] == "interrogate":
        for rel in job["outputs"].values():
            os.makedirs(os.path.join(root, "src", os.path.dirname(rel)), exist_ok=True)


def _arm(job):
    """interrogate reads headers, and skips an include file it cannot open (for lack of memory too) like a missing one:
    allocation faults are injected from its first output open on.  interrogate_module reads only the databases, whose
    failure to load it must report anyway: there the faults cover the whole run."""
    return "1" if job["tool"] == "interrogate" else "0"


def _golden_for(job, idx):
    root = runner.fresh_dir("golden-%d" % idx)
    common.materialise(job, root)
    _decoys(job, root)
    r = common.run_job(job, root, "rel", env=ENV)
    if r.status != 0 or r.crashed:
        sys.stderr.write("outfault: fault-free run of job %s fails (%s); the job is only self-checked\n" % (job["name"], r.outcome()))
        common.cleanup(root)
        return None
    out = common.collect_outputs(job, root)
    if any(v is None for v in out.values()):
        sys.stderr.write("outfault: fault-free run of job %s exits 0 without producing %s; the job is only self-checked\n" %
                         (job["name"], sorted(ch for ch, v in out.items() if v is None)))
        common.cleanup(root)
        return None
    events = {}
    # every channel has its own directory: whatever file the tool writes in there (the target itself, or a
    # temporary it later renames into place) belongs to that channel
    dir2ch = {os.path.dirname(rel) + "/": ch for ch, rel in job["outputs"].items()}
    written = {ch: 0 for ch in job["outputs"]}
    for ev in r.trace:
        ch = next((c for d, c in dir2ch.items() if ev["path"].startswith(d)), None)
        if ch is None:
            continue
        e = events.setdefault(ch, {"open": 0, "write": 0, "close": 0, "sizes": []})
        if ev["op"] == "open":
            e["open"] += 1
        elif ev["op"] in ("write", "writev"):
            e["write"] += 1
            e["sizes"].append(ev["req"])
            written[ch] += ev["ret"]
        elif ev["op"] == "close":
            e["close"] += 1
    for ch in job["outputs"]:
        raw = runner.read_file(os.path.join(root, job["outputs"][ch]))
        if raw is None or written[ch] < len(raw):
            raise SystemExit("outfault: traced writes (%d) do not account for %s (%s bytes) -- seam incomplete" %
                             (written[ch], job["outputs"][ch], None if raw is None else len(raw)))
    common.cleanup(root)
    # allocation faults: how many large allocation requests does the fault-free run make (same job under the scatter allocator)?
    root = runner.fresh_dir("golden-heap-%d" % idx)
    common.materialise(job, root)
    _decoys(job, root)
    tr = os.path.join(root, "heap.trace")
    rh = common.run_job(job, root, "rel", env=dict(ENV, SIMHEAP_SEED="1", SIMHEAP_BIG=str(BIG_ALLOC), SIMHEAP_ARM_ON_OUTPUT=_arm(job), SIMHEAP_TRACE=tr), preload=[build.shim("simheap")])
    big = 0
    try:
        with open(tr) as f:
            m = re.search(r"big=(\d+)", f.read())
            big = int(m.group(1)) if m else 0
    except OSError:
        pass
    if rh.status != 0 or common.collect_outputs(job, root) != out:
        raise SystemExit("outfault: job %s behaves differently under the scatter allocator (%s)" % (job["name"], rh.outcome()))
    common.cleanup(root)
    return {"out": out, "events": events, "big_allocs": big}


def setup(ctx):
    global JOBS, GOLDEN, KINDS
    if not ctx.no_build:
        build.ensure_shims()
        build.ensure("rel", ("interrogate", "interrogate_module"))
    KINDS = ["rel"]
    global BIG_ALLOC
    BIG_ALLOC = 1024 if ctx.tier == "quick" else 128
    if ctx.tier == "thorough":
        if not ctx.no_build:
            build.ensure("san", ("interrogate", "interrogate_module"))
        KINDS = ["rel", "san"]
    jobs, libs = _mk_jobs(ctx)
    # module jobs need real databases: produce them with the real interrogate, fault-free
    dbs = {}
    for l in ("a", "b", "c"):
        j = common.igate_job(l, libs[l]["files"], libs[l]["main"], "-python-native", channels=("od",),
                             srcdir=libs[l]["srcdir"], incs=libs[l]["incs"])
        root = runner.fresh_dir("db-" + l)
        common.materialise(j, root)
        r = common.run_job(j, root, "rel", env=ENV)
        if r.status != 0:
            raise SystemExit("outfault: cannot build database for lib%s: %s" % (l, r.stderr.decode()[-1000:]))
        dbs["lib%s.in" % l] = runner.read_file(os.path.join(root, j["outputs"]["od"])).decode("latin-1")
        common.cleanup(root)
    jobs.append(common.module_job("m3", dbs, "-python-native"))
    jobs.append(common.module_job("m1", {"liba.in": dbs["liba.in"]}, "-python"))
    jobs.append(common.module_job("m2", {"libb.in": dbs["libb.in"], "liba.in": dbs["liba.in"]}, "-python-native", extra=["-import", "other.core"]))
    # a requested output whose name is empty (an unset variable in a build script): nothing can be written there
    for base in [j for j in jobs if j["name"] in ("m1", "rich-c", "rich-oh", "rich-od")]:
        for ch, rel in sorted(base["outputs"].items()):
            jobs.append(dict(base, name=base["name"] + "-empty-" + ch, argv=["" if a == rel else a for a in base["argv"]]))
    JOBS = jobs
    GOLDEN = [_golden_for(j, i) for i, j in enumerate(jobs)]


def _fault_points(ji):
    """The enumerated single-fault space of job ji."""
    job, g = JOBS[ji], GOLDEN[ji]
    pts = []
    for ch in sorted(job["outputs"]):
        ev = g["events"][ch]
        for e in OPEN_ERRNOS:
            pts.append({"ch": ch, "op": "open", "k": 1, "action": "fail", "err": e})
        for real in ("missingdir", "isdir", "devfull"):
            pts.append({"ch": ch, "op": "real", "kind": real})
        for k in range(1, ev["write"] + 1):
            size = ev["sizes"][k - 1]
            for e in WRITE_ERRNOS:
                pts.append({"ch": ch, "op": "write", "k": k, "action": "fail", "err": e})
            pts.append({"ch": ch, "op": "write", "k": k, "action": "failonce", "err": "EIO"})
            for n in sorted(set([1, max(1, size // 2), max(1, size - 1)])):
                pts.append({"ch": ch, "op": "write", "k": k, "action": "short", "n": n, "err": "ENOSPC"})
            pts.append({"ch": ch, "op": "write", "k": k, "action": "eintr"})
            pts.append({"ch": ch, "op": "write", "k": k, "action": "shortok", "n": max(1, size // 3)})
        for e in CLOSE_ERRNOS:
            pts.append({"ch": ch, "op": "close", "k": 1, "action": "fail", "err": e})
    # memory runs out at the k-th large allocation request after the first output file has been opened (the buffers the
    # output is collected in grow by doubling: those are the requests that fail first when memory is short); once, or from
    # then on.  Requests made while the inputs are still being read are not touched: an include file that cannot be opened
    # for lack of memory is skipped like a missing one, which changes the output but is not a failed output write.
    for k in range(1, g.get("big_allocs", 0) + 1):
        for sticky in (0, 1):
            pts.append({"ch": sorted(job["outputs"])[0], "op": "oom", "k": k, "sticky": sticky, "min": BIG_ALLOC})
    if job["tool"] == "interrogate" and "-srcdir" in job["argv"]:
        # the working directory has been removed under the tool (getcwd fails): none of the relative output paths can be
        # opened, whatever -srcdir (given as an absolute path here) the tool changes into afterwards
        pts.append({"ch": sorted(job["outputs"])[0], "op": "real", "kind": "cwdgone"})
        # the same without -srcdir: the header is named by its absolute path (the tool still changes directory, into the
        # header's, while it makes the name canonical)
        pts.append({"ch": sorted(job["outputs"])[0], "op": "real", "kind": "cwdgone-nosrcdir"})
    return pts


def generate(ctx):
    plans = []
    rng = run_rng(ctx.seed, NAME, 0)
    for ji in range(len(JOBS)):
        if GOLDEN[ji] is None:
            plans.append({"job": ji, "build": "rel", "faults": [], "selfcheck": True})
            continue
        pts = _fault_points(ji)
        for kind in KINDS:
            plans.append({"job": ji, "build": kind, "faults": []})  # fault-free control
            if kind == "san":
                # the sanitized build repeats a seeded third of the space
                use = [p for p in pts if rng.chance(1, 3)]
            else:
                use = pts
            for p in use:
                plans.append({"job": ji, "build": kind, "faults": [p]})
        # pairs: faults on two channels at once / one channel fails while others succeed is the single case
        chans = sorted(JOBS[ji]["outputs"])
        if len(chans) >= 2:
            npairs = 12 if ctx.tier == "quick" else 60
            for _ in range(npairs):
                c1, c2 = rng.sample(chans, 2)
                p1 = rng.choice([p for p in pts if p["ch"] == c1])
                p2 = rng.choice([p for p in pts if p["ch"] == c2])
                plans.append({"job": ji, "build": "rel", "faults": [p1, p2]})
    return plans


ABSORBABLE = ("eintr", "shortok")


def _rule(job, f):
    path = os.path.dirname(job["outputs"][f["ch"]]) + "/*"      # any file of the channel's directory
    if f["op"] == "open":
        return "open:%s:%d:fail:%s" % (path, f["k"], f["err"])
    if f["op"] == "close":
        return "close:%s:%d:fail:%s" % (path, f["k"], f["err"])
    a = f["action"]
    if a in ("fail", "failonce"):
        return "write:%s:%d:%s:%s" % (path, f["k"], a, f["err"])
    if a == "short":
        return "write:%s:%d:short:%d:%s" % (path, f["k"], f["n"], f["err"])
    if a == "shortok":
        return "write:%s:%d:shortok:%d" % (path, f["k"], f["n"])
    if a == "eintr":
        return "write:%s:%d:eintr" % (path, f["k"])
    raise ValueError(f)


def fault_kind(f):
    if f["op"] == "real":
        return f["kind"]
    if f["op"] == "oom":
        return "alloc-fail-sticky" if f.get("sticky") else "alloc-fail-once"
    if f["op"] == "write":
        return "write-" + f["action"]
    return f["op"] + "-fail"


def execute(plan):
    ji = plan["job"]
    job, g = JOBS[ji], GOLDEN[ji]
    root = runner.fresh_dir("of-%07d-%016x" % (os.getpid(), fnv1a(json.dumps(plan, sort_keys=True))))
    common.materialise(job, root)
    _decoys(job, root)
    if plan.get("selfcheck"):
        r = common.run_job(job, root, "rel", env=ENV)
        out = common.collect_outputs(job, root)
        common.cleanup(root)
        violations = []
        missing = sorted(ch for ch, v in out.items() if not v)
        if r.status == 0 and missing:
            violations.append({"property": "C19", "class": "exit0-output-not-written",
                               "key": {"tool": job["tool"], "channel": missing[0], "fault": "none-output-missing"},
                               "msg": "%s %s: exit status 0 in a fault-free run although nothing was written at the requested -%s path" % (job["tool"], job["name"], missing[0])})
        return {"violations": violations, "harness_faults": [], "abstract": "%s|selfcheck|%s" % (job["tool"], r.outcome()),
                "hash": runner.sha(json.dumps([plan, r.outcome(), missing], sort_keys=True)), "nontrivial": False, "fired": {}, "planned": [],
                "status": r.outcome(), "partial": [], "signal": bool(r.signal)}
    rules = []
    cwdgone = False
    oom = None
    lost_real = set()   # channels whose target cannot hold the data by construction
    for f in plan["faults"]:
        if f["op"] == "real":
            # the command line stays the same; only the state of the simulated disk differs
            rel = job["outputs"][f["ch"]]
            target = os.path.join(root, rel)
            if f["kind"] == "missingdir":
                os.rmdir(os.path.dirname(target))
                os.makedirs(os.path.join(root, "src", os.path.dirname(rel)), exist_ok=True)
            elif f["kind"] == "isdir":
                os.makedirs(target)
            elif f["kind"] == "devfull":
                os.symlink("/dev/full", target)
            elif f["kind"] in ("cwdgone", "cwdgone-nosrcdir"):
                cwdgone = f["kind"]
                lost_real.update(job["outputs"])
            lost_real.add(f["ch"])
        elif f["op"] == "oom":
            oom = f
        else:
            rules.append(_rule(job, f))
    env = ENV
    preload = []
    if oom:
        env = dict(ENV, SIMHEAP_SEED="1", SIMHEAP_BIG=str(oom.get("min", BIG_ALLOC)), SIMHEAP_FAIL_AT=str(oom["k"]), SIMHEAP_FAIL_STICKY=str(oom.get("sticky", 0)), SIMHEAP_ARM_ON_OUTPUT=_arm(job),
                   SIMHEAP_TRACE=os.path.join(root, "heap.trace"))
        preload = [build.shim("simheap")]
    if cwdgone:
        argv = list(job["argv"])
        i = argv.index("-srcdir")
        if cwdgone == "cwdgone":
            argv[i + 1] = os.path.join(root, argv[i + 1])
        else:
            srcdir = os.path.join(root, argv[i + 1])
            n = job.get("nfiles", 1)
            argv = argv[:i] + argv[i + 2:-n] + ["-I" + srcdir] + [os.path.join(srcdir, a) for a in argv[-n:]]
        os.makedirs(os.path.join(root, "gone"))
        wrapper = ["/bin/sh", "-c", 'cd gone && rmdir ../gone && exec "$0" "$@"', build.tool(plan["build"], job["tool"])] + argv
        r = runner.run_tool(wrapper, cwd=root, root=root, plan=rules, env=env, san=(plan["build"] == "san"), preload=preload)
    else:
        r = common.run_job(job, root, plan["build"], plan=rules, env=env, preload=preload)
    out = common.collect_outputs(job, root)
    for ch in lost_real:
        out[ch] = None
    fired = runner.fired_faults(r.trace)
    if oom:
        # did the allocator actually refuse a request (the shim reports it at exit)?
        try:
            with open(os.path.join(root, "heap.trace")) as f:
                m = re.search(r"failed=(\d+)", f.read())
            if m and int(m.group(1)):
                fired["alloc-fail"] = fired.get("alloc-fail", 0) + 1
        except OSError:
            if r.status != 0 or r.signal:
                fired["alloc-fail"] = fired.get("alloc-fail", 0) + 1     # _Exit from the new-handler: no exit report, but only a refused request ends that way
    if cwdgone:
        fired[cwdgone] = fired.get(cwdgone, 0) + 1
    incomplete = sorted(ch for ch in job["outputs"]
                        if ch in lost_real or out[ch] is None or out[ch] != g["out"][ch])
    violations = []
    harness_faults = []
    if r.status == 0 and incomplete:
        for ch in incomplete:
            culprit = [f for f in plan["faults"] if f["ch"] == ch] or [f for f in plan["faults"] if f["op"] == "oom"]
            kind = fault_kind(culprit[0]) if culprit else "none"
            if not culprit:
                # Collateral of a fault on another channel (e.g. the database differs when the code writer never ran):
                # the violation is reported for the faulted channel.  With no fault at all it is a harness problem.
                if not plan["faults"]:
                    harness_faults.append("job %s channel %s differs from golden in a fault-free run" % (job["name"], ch))
                continue
            state = "missing" if out[ch] is None else ("unwritable-target" if ch in lost_real else "%d of %d bytes" % (len(out[ch]), len(g["out"][ch])))
            violations.append({
                "property": "C19", "class": "exit0-after-lost-output",
                "key": {"tool": job["tool"], "channel": ch, "fault": kind},
                "msg": "%s %s: exit status 0 although output -%s is incomplete (%s) after fault %s" %
                       (job["tool"], job["name"], ch, state, json.dumps(culprit[0], sort_keys=True)),
            })
    if not plan["faults"] and (r.status != 0 or r.crashed):
        harness_faults.append("fault-free control of %s: %s" % (job["name"], r.outcome()))
    if r.sanitizer or r.timeout:
        # not a C19 matter by itself, but never silently dropped
        violations.append({"property": "C15x", "class": "crash-under-output-fault",
                           "key": {"tool": job["tool"], "outcome": r.outcome()},
                           "msg": "%s died (%s) under output fault %s" % (job["tool"], r.outcome(), plan["faults"])})
    planned = [fault_kind(f) for f in plan["faults"]]
    abstract = "%s|%s|%s|%s|%s" % (job["tool"], ",".join(sorted(job["outputs"])),
                                  "+".join("%s@%s%s" % (fault_kind(f), f["ch"], ("#%d" % f["k"]) if "k" in f else "") for f in plan["faults"]) or "nofault",
                                  "exit0" if r.status == 0 else ("signal" if r.signal else "exitN"),
                                  ",".join(incomplete) or "complete")
    h = runner.sha(json.dumps([plan, r.outcome(), {ch: (runner.sha(v) if v is not None else None) for ch, v in sorted(out.items())},
                               [(e["op"], e["path"], e["ret"], e["err"], e["fault"]) for e in r.trace
                                if e["op"] != "write" and e["op"] != "writev" or e["fault"] != "-"]], sort_keys=True))
    common.cleanup(root)
    return {"violations": violations, "harness_faults": harness_faults, "abstract": abstract, "hash": h,
            "nontrivial": bool(fired) or bool(lost_real), "fired": fired, "planned": planned,
            "status": r.outcome(), "partial": [ch for ch in incomplete if out[ch]], "signal": bool(r.signal)}


def shrink(plan, fails):
    # plans hold at most two faults: try each alone, then simpler arguments
    best = plan
    if not plan["faults"]:
        return plan
    if len(plan["faults"]) > 1:
        for f in plan["faults"]:
            cand = dict(plan, faults=[f])
            if fails(cand):
                best = cand
                break
    f = best["faults"][0]
    if f.get("op") == "write":
        for k in range(1, f["k"]):
            cand = dict(best, faults=[dict(f, k=k)])
            if fails(cand):
                best = cand
                break
    return best


def coverage(ctx, plans, results):
    planned, fired, outcomes = {}, {}, {}
    maxk = {}
    partial = empty = signals = 0
    abstracts = set()
    for p, r in zip(plans, results):
        for k in r["planned"]:
            planned[k] = planned.get(k, 0) + 1
        for k, n in r["fired"].items():
            fired[k] = fired.get(k, 0) + n
        outcomes[r["status"]] = outcomes.get(r["status"], 0) + 1
        if r["nontrivial"]:
            abstracts.add(r["abstract"])
        partial += 1 if r["partial"] else 0
        signals += 1 if r["signal"] else 0
        for f in p["faults"]:
            if f.get("op") == "write":
                key = "%s/%s" % (JOBS[p["job"]]["name"], f["ch"])
                maxk[key] = max(maxk.get(key, 0), f["k"])
    samples = [plans[i] for i in (1, len(plans) // 3, len(plans) // 2, len(plans) - 1) if i < len(plans)]
    return {
        "evaluations": len(plans),
        "distinct_nontrivial": len(abstracts),
        "rule": "one case = (job, build, set of 1-2 faults); enumerated: every output channel of every job x "
                "{open errno x4, missing dir, target is a directory, /dev/full, every k-th write x (4 errnos, fail-once, 3 short-then-fail sizes, EINTR, legal short write), "
                "close errno x3} plus seeded two-channel pairs; a case is non-trivial when at least one planned fault actually fired (from the SimOS trace) "
                "or the target was unwritable for real; distinct = distinct (tool, channels, fault kinds@channel#k, exit class, incomplete channels) tuples",
        "samples": samples,
        "exhaustive": True,
        "exhaustive_note": "the single-fault space of the jobs listed is enumerated completely on the shipping-flag build; pairs and the sanitized build are seeded samples",
        "jobs": [{"name": j["name"], "tool": j["tool"], "writes_per_channel": {ch: GOLDEN[i]["events"][ch]["write"] for ch in sorted(j["outputs"])},
                  "bytes_per_channel": {ch: len(GOLDEN[i]["out"][ch]) for ch in sorted(j["outputs"])}} if GOLDEN[i] is not None else
                 {"name": j["name"], "tool": j["tool"], "self_checked_only": True} for i, j in enumerate(JOBS)],
        "faults_planned": planned, "faults_fired": fired, "process_outcomes": outcomes,
        "max_write_k_reached": maxk, "runs_leaving_partial_file": partial, "runs_ending_in_signal": signals,
        "simulated_time_covered": "none: no clock is read on any path this property depends on",
        "distinct_interleavings_measure": "distinct abstract traces (see rule): %d" % len(abstracts),
    }


class Cov:
    def __init__(self, ctx):
        self.ctx, self.plans, self.results = ctx, [], []

    def add(self, plan, result):
        self.plans.append(plan)
        self.results.append(result)

    def finish(self):
        return coverage(self.ctx, self.plans, self.results)

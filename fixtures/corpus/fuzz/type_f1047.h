template<class T> struct W { __published: T get() const; typedef T value_type; };
template<class T, class U> struct P2 { __published: T first() const; U second() const; };
struct HA { typedef int value_type; typedef unsigned long size_type; typedef int *ptr; typedef int &ref; struct inner { int q; }; typedef int (*fn)(int a); enum E { e0, e1 }; struct Nested { int z; }; using alias_t = int; static const int N = 3; int data; };
struct HB { typedef char value_type; typedef unsigned long size_type; typedef char *ptr; typedef char &ref; struct inner { int q; }; typedef int (*fn)(int a); enum E { e0, e1 }; struct Nested { int z; }; using alias_t = char; static const int N = 2; int data; };
struct HC { typedef double value_type; typedef unsigned long size_type; typedef double *ptr; typedef double &ref; struct inner { int q; }; typedef int (*fn)(value_type); enum E { e0, e1 }; struct Nested { int z; }; using alias_t = int; static const int N = 2; int data; };
typedef int GI; typedef float GF; typedef int *GP; typedef int GA[3]; typedef int (*GFn)(int); extern int gv; extern double gw;
typedef bool T0;
typedef volatile HB::Nested T1;
typedef decltype(gv) T2;
typedef P2<P2<const char *, HA::alias_t>, W<char *>> T3;
typedef W<W<GFn *> (*)()> T4;
typedef unsigned int T5;
__begin_publish
volatile GI g0();
int g1();
W<GFn *> g2(W<W<int[3]>>, GA b1);
int g3(decltype(gv));
int g4();
GI * g5();
void g6();
__end_publish

#!/bin/bash
# tools/runall.sh [tier] [extra ./check args] -- runs every claimed check and prints exit status, VIOLATION / HARNESS-FAULT /
# KNOWN-FINDING lines and the summary line of each (never judge a check by its last line alone).
cd /verif
TIER=${1:-quick}; shift || true
rc_all=0
for p in C12 C13 C14 C15 C16 C19 C20; do
  ./check $p --tier "$TIER" "$@" > /dev/shm/runall-$p.out 2>&1; rc=$?
  echo "== $p exit=$rc  $(grep '^check '"$p"':' /dev/shm/runall-$p.out)"
  grep -E '^(VIOLATION|HARNESS-FAULT|KNOWN-FINDING)' /dev/shm/runall-$p.out | cut -c1-300
  [ $rc -ne 0 ] && rc_all=1
done
exit $rc_all

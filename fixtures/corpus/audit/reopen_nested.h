struct Parent {
struct Parent::Child {
  struct Child;
};
struct Parent::Child {
  int member;
};

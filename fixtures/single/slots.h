class Seq {
__published:
  Seq();
  int size() const;
  int __len__() const;
  int operator [](int i) const;
  int __getitem__(int i) const;
  int operator ()(int a) const;
  int __call__(int a) const;
  operator bool() const;
  bool __nonzero__() const;
  bool __bool__() const;
  Seq operator +(const Seq &o) const;
  Seq __add__(const Seq &o) const;
  Seq &operator +=(const Seq &o);
  Seq &__iadd__(const Seq &o);
  int __hash__() const;
  int get_hash() const;
  int compare_to(const Seq &o) const;
  bool operator ==(const Seq &o) const;
  bool operator <(const Seq &o) const;
  bool __eq__(const Seq &o) const;
};

// Overloads whose one-argument forms differ in whether the parameter is named.
class KwShortcut {
__published:
  KwShortcut();
  void f(int param0);
  void f(double);
  void f(int a, int b);
  void g(const char *name);
  void g(int);
  void g(int first, int second = 2);
};

// The call slot with several overloads, one of them taking the raw argument tuple.
#include <Python.h>
struct Functor {
__published:
  Functor();
  int operator ()(int a);
  int operator ()(double a, double b);
  int operator ()(PyObject *args, PyObject *kwds);
};
struct Functor2 {
__published:
  Functor2();
  int operator ()(int a);
  int operator ()(const char *s);
  int operator ()(int a, int b, int c = 3);
};

// The same name reachable through two using-directives.
namespace UsingA { typedef unsigned long size_type; typedef int value_type; }
namespace UsingB { typedef unsigned long size_type; typedef double value_type; }
using namespace UsingA;
using namespace UsingB;
__begin_publish
size_type using_g(size_type n);
__end_publish

// Several overloads of a kind behind the buffer protocol slots.
struct BufTwoConst {
__published:
  BufTwoConst();
  int __getbuffer__(Py_buffer *view, int flags) const;
  int __getbuffer__(Py_buffer *view, int flags, int extra) const;
  void __releasebuffer__(Py_buffer *view) const;
  void __releasebuffer__(Py_buffer *view, int extra) const;
};
struct BufMixed {
__published:
  BufMixed();
  int __getbuffer__(PyObject *self, Py_buffer *view, int flags);
  int __getbuffer__(PyObject *self, Py_buffer *view, int flags) const;
  int __getbuffer__(Py_buffer *view, int flags, int extra);
  void __releasebuffer__(PyObject *self, Py_buffer *view);
  void __releasebuffer__(PyObject *self, Py_buffer *view) const;
  void __releasebuffer__(Py_buffer *view, int extra);
};

// Template instantiations keyed by typedefs that are equal in structure but distinct objects.
template<class P, class Q> class Tm2 {
__published:
  P getp() const;
  Q getq() const;
};
class TdA { public: typedef int value_type; typedef const char *name_type; };
typedef double tm2_other_type;
class TdB { public: typedef int value_type; typedef const char *name_type; };
class TdC { public: typedef int value_type; };
typedef Tm2<tm2_other_type, int> Tm2K3;
typedef Tm2<TdA::value_type, int> Tm2K1;
typedef Tm2<TdB::value_type, int> Tm2Kq;
typedef Tm2<TdC::value_type, TdA::value_type> Tm2Kr;
typedef Tm2<TdB::name_type, TdA::name_type> Tm2Kn;
typedef Tm2<TdA::name_type, TdB::name_type> Tm2Km;

// Conditional expressions that differ only in their third operand, next to one whose condition names another type.
struct CondA { int x; };
struct CondB { int x; };
template<int N> struct CondArr { int v[N]; };
typedef CondArr<(sizeof(CondB) > 8 ? 1 : 2)> CondC;
typedef CondArr<(sizeof(CondA) > 8 ? 1 : 2)> CondD;
typedef CondArr<(sizeof(CondA) > 8 ? 1 : 3)> CondE;
__begin_publish
void cond_f3(int a = sizeof(CondB) > 8 ? 16 : 8);
void cond_f1(int a = sizeof(CondA) > 8 ? 16 : 8);
void cond_f2(int a = sizeof(CondA) > 8 ? 16 : 4);
CondC *cond_c(CondD *d, CondE *e);
__end_publish

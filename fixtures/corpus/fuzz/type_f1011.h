template<class T> struct W { __published: T get() const; typedef T value_type; };
template<class T, class U> struct P2 { __published: T first() const; U second() const; };
struct HA { typedef double value_type; typedef unsigned long size_type; typedef double *ptr; typedef double &ref; struct inner { int q; }; typedef int (*fn)(int a); enum E { e0, e1 }; struct Nested { int z; }; using alias_t = int; static const int N = 3; int data; };
struct HB { typedef int value_type; typedef unsigned long size_type; typedef int *ptr; typedef int &ref; struct inner { int q; }; typedef int (*fn)(value_type); enum E { e0, e1 }; struct Nested { int z; }; using alias_t = int; static const int N = 3; int data; };
struct HC { typedef char value_type; typedef unsigned long size_type; typedef char *ptr; typedef char &ref; struct inner { int q; }; typedef int (*fn)(value_type); enum E { e0, e1 }; struct Nested { int z; }; using alias_t = char; static const int N = 2; int data; };
typedef int GI; typedef float GF; typedef int *GP; typedef int GA[3]; typedef int (*GFn)(int); extern int gv; extern double gw;
typedef HB T0;
typedef HC::size_type * T1;
typedef bool * T2;
typedef GA T3;
typedef W<W<HA::inner>> T4;
typedef unsigned int T5;
__begin_publish
int g0(HA::ptr * b0, const HA *, W<HA *> a2);
int g1(W<HA *> b0);
W<HB::ptr> g2(W<P2<HB *, GI[HA::N]>> a0, HC::alias_t *);
int g3(GA a0);
volatile HB g4(bool const * const, W<char *>);
__end_publish
